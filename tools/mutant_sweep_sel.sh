#!/bin/bash
# usage: tools/mutant_sweep_sel.sh <egrep-pattern> [budget] [jobs] [procs-per-job] -- the parallel sweep for the patches whose path matches; merges into RESULTS.tsv
PAT=$1; BUDGET=${2:-40}; JOBS=${3:-4}; PROCS=${4:-4}
HERE=$(cd "$(dirname "$0")/.." && pwd)
OUT=$HERE/mutants/RESULTS.tsv
one() {
  f=$1; HERE=$2; BUDGET=$3; PROCS=$4
  case "$f" in
    */seeded/*) name="seeded-$(basename $(dirname $f))"; prop=$(basename $(dirname $f) | cut -c1-3)
       alt=$(/venv/bin/python -c "import json,sys,re; m=json.load(open(sys.argv[1])).get('verif',{}); c=str(m.get('check','')); g=re.match(r'(C\d\d)',c); print(g.group(1) if g and m.get('caught') else ('SKIP' if m.get('caught') is False else ''))" "$(dirname $f)/meta.json" 2>/dev/null)
       [ "$alt" = "SKIP" ] && { echo -e "$name\t$prop\tnot-caught(recorded)\t-"; return; }
       [ -n "$alt" ] && prop=$alt;;
    *) name=$(basename $f .patch); prop=$(echo $name | cut -c1-3 | tr a-z A-Z);;
  esac
  res=$(TMO=300 TAIL=40 EXTRA="--procs $PROCS" $HERE/tools/mutant.sh "$f" $prop $BUDGET 2>&1)
  rc=$(echo "$res" | grep -o "exit=[0-9]*" | tail -1 | cut -d= -f2)
  first=$(echo "$res" | grep -m1 "clause=" | sed 's/^ *//' | cut -c1-120)
  echo -e "$name\t$prop\t$([ "$rc" = "1" ] && echo yes || echo "no(rc=$rc)")\t$first"
}
export -f one
ls $HERE/mutants/*.patch $HERE/seeded/*/patch.diff | grep -E "$PAT" | xargs -P $JOBS -I{} bash -c 'one "$@"' _ {} $HERE $BUDGET $PROCS > "$OUT.tmp"
cut -f1 "$OUT.tmp" > "$OUT.names"; { grep -v -F -w -f "$OUT.names" "$OUT"; cat "$OUT.tmp"; } | sort > "$OUT.new"; mv "$OUT.new" "$OUT"; rm -f "$OUT.tmp" "$OUT.names"
