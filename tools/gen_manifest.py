#!/venv/bin/python
"""Writes /verif/MANIFEST.json from the table below (kept in one place so it stays consistent)."""
import json, os
HERE = os.path.dirname(os.path.dirname(os.path.abspath(__file__)))

TECH = 'deterministic simulation with fault injection: seeded search over plans (workload + fault schedule) run against the real kopf.operator() on virtual-time event loops and a fake Kubernetes API; oracles as invariants and history checks'

CLAIMED = {
 # id: (level category, text, design_ref, level_note)
 'C01': ('exploration',
         'Seeded exploration of watch-event streams through the real watcher/worker/scheduler stack in a closed loop; '
         'per-object no-overlap, order, exactly-once and no-loss oracles against what the watch stack yielded, plus the '
         'worker-limit independence bound. The retire-at-arrival race is hit by snapping deliveries onto the idle deadline.',
         'DESIGN.md section 5 / C01',
         'reference = events yielded by watching.infinite_watch (tap); FakeCluster semantics; sampled schedules'),
}

NOT_YET = {}

NOT_APPLICABLE = {
 'C18': 'serve_admission_request is a pure function of the review request and handler outcomes: no schedule, clock, I/O, '
        'shared state or fault for a simulator to own; deciding it is input-space testing against an RFC 6902/7386 reference, '
        'a different technique (DESIGN.md section 6).',
}

def main():
    props = [json.loads(l) for l in open(os.path.join(HERE, 'properties.jsonl'))]
    checks = []
    na = []
    for p in props:
        pid = p['id']
        if pid in CLAIMED:
            cat, text, ref, note = CLAIMED[pid]
            checks.append({
                'property_id': pid,
                'quick_cmd': f'./check {pid} --tier quick',
                'thorough_cmd': f'./check {pid} --tier thorough',
                'evidence_file': f'/verif/evidence/{pid}.json',
                'replay_cmd_template': f'./check {pid} --replay {{path}}',
                'engine': 'kopfsim',
                'level_claimed': {'category': cat, 'text': text, 'design_ref': ref},
                'level_note': note,
                'technique': TECH,
            })
        elif pid in NOT_APPLICABLE:
            na.append({'property_id': pid, 'reason': NOT_APPLICABLE[pid]})
        else:
            na.append({'property_id': pid, 'reason': NOT_YET.get(pid, 'check not built yet in this session (work in progress); not claimed')})
    manifest = {
        'version': 1,
        'setup_cmd': '/venv/bin/python -c "import hypothesis, aiohttp, sys; sys.path.insert(0, \'/repo\'); import kopf" && /verif/tools/determinism.py C01 6',
        'hooks': {
            'guard': 'KOPF_VERIF',
            'enable': 'no source hooks: every seam is reached from the harness (kopf.AiohttpSession login handler, module-attribute proxies); the guard name is reserved and unused',
            'baseline_off_cmd': 'cd /repo && /venv/bin/python -m pytest -ra -q -p no:cacheprovider --timeout=900 --continue-on-collection-errors',
            'source_commits': [],
            'add_only': True,
        },
        'engines': [{'name': 'kopfsim', 'path': '/verif/kopfsim', 'serves_properties': sorted(CLAIMED),
                     'kind_free_text': 'deterministic simulator: virtual-time asyncio loops (one per operator process), FakeCluster API model, keyed-latency fault-injecting transport, plan generator/minimiser/replayer'}],
        'checks': checks,
        'not_applicable': na,
        'notes': 'Exit codes: 0 held / 1 VIOLATION / 2 harness error. Env: VERIF_SEED, VERIF_TIER, VERIF_BUDGET_S, VERIF_PROCS, VERIF_REPO (tree under test), VERIF_OUT.',
    }
    with open(os.path.join(HERE, 'MANIFEST.json'), 'w') as f:
        json.dump(manifest, f, indent=1)
    print('claimed:', sorted(CLAIMED), 'not claimed:', [x['property_id'] for x in na])

if __name__ == '__main__':
    main()
