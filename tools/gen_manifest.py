#!/venv/bin/python
"""Writes /verif/MANIFEST.json from the table below (kept in one place so it stays consistent)."""
import json, os
HERE = os.path.dirname(os.path.dirname(os.path.abspath(__file__)))

TECH = 'deterministic simulation with fault injection: seeded search over plans (workload + fault schedule) run against the real kopf.operator() on virtual-time event loops and a fake Kubernetes API; oracles as invariants and history checks'

CLAIMED = {
 # id: (level category, text, design_ref, level_note)
 'C01': ('exploration',
         'Seeded exploration of watch-event streams through the real watcher/worker/scheduler stack in a closed loop; '
         'per-object no-overlap, order, exactly-once and no-loss oracles against what the watch stack yielded, plus the '
         'worker-limit independence bound. The retire-at-arrival race is hit by snapping deliveries onto the idle deadline; '
         'idle_timeout=0 included (the run must settle).',
         'DESIGN.md section 5 / C01',
         'reference = events yielded by watching.infinite_watch (tap); FakeCluster semantics; sampled schedules'),
 'C02': ('exploration',
         'Closed-loop exploration of multi-step handling cycles (all lifecycles, sub-handlers, storages) with foreign events, '
         'kills/stops/lost responses/echo delays; view-based clauses under every fault, strict exactly-once and retry '
         'numbering in the fault-free tier, close-not-early, finished-record-not-dropped-before-the-close and parent-after-children '
         'clauses against the server state; async and synchronous (threaded) handlers.',
         'DESIGN.md section 5 / C02',
         'handler ids unique per cause; no retries=/timeout= limits (C11); reference decoding of progress records for short ids'),
 'C03': ('exploration',
         'Histories of changes, stops, kills (in-flight write applied or not), downtimes and delivery delays, then a fault-free '
         'settle window; convergence oracle at quiescence (no progress records, last-handled == final essence, handlers of '
         'the closing cycle saw the final essence, no operator writes, deletions complete).',
         'DESIGN.md section 5 / C03',
         'no API error responses are injected (C12); no name reuse (C08); independent essence reference'),
 'C05': ('exploration',
         'Every processed event of closed-loop histories (deletions, forced finalizer removal, restarts) is classified by an '
         'independent reference (documented precedence) from the server snapshot kopf was shown and compared with the cause '
         'kopf detected; every change-handler call must be compatible with it.',
         'DESIGN.md section 5 / C05',
         'first-sight ("resume") is reconstructed from the trace; no field= handlers; null == absent in essence comparison'),
 'C07': ('exploration',
         'Own-PATCH echoes delayed below/at/above the consistency timeout with foreign events queued in between; every '
         'change-handler call is checked against every own acknowledged version (integer versions ordered by the oracle); '
         'raw-event handlers must not be held back.',
         'DESIGN.md section 5 / C07',
         'no daemons/timers in this workload; versions of the fake API are integers'),
 'C09': ('exploration',
         'Daemons of every reaction type and timers of every configuration under label toggles, graceful/early/forced '
         'deletions, peering pauses and operator exits; one-instance, staged-stop, stop-requested, no-restart-after-own-exit, '
         'running-at-quiescence, no-stall (CPU watchdog) and exit-completes oracles; async and synchronous (threaded) daemons and timers.',
         'DESIGN.md section 5 / C09',
         'cancel-only daemons always have a cancellation_timeout; synchronous daemons/timers run in simulated threads (baton-passed real threads behind settings.execution.executor)'),
 'C10': ('exploration',
         'Timer-only workloads over all interval/sharp/idle/initial_delay combinations, durations around the interval, error '
         'scripts and object edits; strict lower bounds and slack-carrying upper bounds on the start/end stamps.',
         'DESIGN.md section 5 / C10',
         'upper bounds carry the result-patch latency as slack; idle lower bound only (kopf may reset idling more often)'),
 'C04': ('exploration',
         'Closed-loop part only: one or two Kopf-based operators (different prefixes / status stanzas / finalizers, drawn storage '
         'configurations) on the same objects under essential and non-essential external writes; every update must be explained by '
         'an essential difference against an independently written essence, the stored diff base must equal that essence, '
         'old/new/diff of every call must fit together (also narrowed to a field), and both operators must quiesce (no ping-pong).',
         'DESIGN.md section 5 / C04',
         'the universally quantified pure-function part (all bodies, all field paths) is sampled by the workload, not decided'),
 'C06': ('exploration',
         'Deletion histories with mandatory/optional delete handlers, daemons and timers of every reaction type, foreign finalizer '
         'edits, label flips, 422 conflicts on the finalizer patch and restarts; server-side invariants: the finalizer is not removed '
         'while something of ours is unfinished or running within its grace, it is removed once all is done, foreign finalizers are '
         'never added, dropped or reordered; async and synchronous (threaded) daemons.',
         'DESIGN.md section 5 / C06',
         'reference decoding of progress records; cancel-only daemons have a cancellation_timeout'),
 'C08': ('fault_enumeration',
         'Harness A enumerates, per generated patch (merge fields x transformation functions), every position of a failing or '
         'conflicting sub-request x every status override of patch_obj() against the fake API and checks each field/function is '
         'applied exactly once or carried over; harness B explores the closed loop for writes landing on another object.',
         'DESIGN.md section 5 / C08',
         'the sub-request sequence is enumerated exhaustively per patch; patches and bodies are sampled'),
 'C11': ('exploration',
         'Change handlers and sub-handlers (also across stops/kills/restarts), timers and daemons with drawn errors mode, retries, '
         'timeout, backoff and exception scripts; per attempt sequence: spacing, permanence, ignored => done (also the recorded '
         'verdict, and timers going on), attempts <= retries, nothing after the timeout, recorded failed afterwards; API errors on the '
         'patches of timer attempts; a timer that failed for good is never started anew in the process; wall-clock jumps between the '
         'incarnations of a restarted operator (bounds relaxed by the jump).',
         'DESIGN.md section 5 / C11',
         'activities (startup/cleanup/login) are exercised in C20\'s workload'),
 'C12': ('exploration',
         'Harness A drives api.request directly through finite per-attempt fault sequences x back-off configurations (empty, '
         'scalar incl. 0, list, re-iterable) x enforce_retry_after; harness B runs the closed loop with per-object error storms, '
         '401 re-authentication with concurrent requests and login handlers that re-issue revoked credentials (the latest, or an earlier set: two identities in turn).',
         'DESIGN.md section 5 / C12',
         'attempt times are taken at the fake server; one retry on a just-closed session is tolerated'),
 'C13': ('exploration',
         '2-4 operator processes (one virtual-time loop each) sharing a peering object: starts, stops, cancellations, kills, '
         'restarts, delayed peering events, junk records; paused-by-effect (no open stream, daemons flagged), prompt resume, '
         'settled state (exactly the top running operator active), record renewal/removal/cleaning (nobody removes the valid record of a running peer), no handler repeated in a process.',
         'DESIGN.md section 5 / C13',
         'clock skew 0 (the guarantee presupposes synchronised clocks); lifetimes >= 3 s'),
 'C14': ('exploration',
         'Pre-existing objects with and without last-handled state / unfinished progress, resume handlers with failure scripts, '
         'reconnects, 410 re-listings, edits around the resume cycle, restarts; per (process, object, handler): at most one '
         'completed run (sub-handlers included), eligible objects get it, ineligible never: not objects being deleted without '
         'opt-in, not after the resuming phase of the process (label-filtered resume handlers, late label edits).',
         'DESIGN.md section 5 / C14',
         'eligibility is reconstructed from the first view a process had of the object'),
 'C15': ('exploration',
         'Closed-loop part only: handler sets drawn over a criteria alphabet (labels/annotations value|present|absent|callback, '
         'field+value, old/new, when, duplicate registration) against object histories over the same alphabet; soundness per '
         'call, completeness per cycle and per raw event against an independently written reading of docs/filters.rst, and '
         'stealth (no write to never-matching objects).',
         'DESIGN.md section 5 / C15',
         'the bounded-exhaustive criteria x state product is sampled, not enumerated'),
 'C16': ('exploration',
         'System-level part only: handler ids over [A-Za-z0-9_./<>-]{1,300} incl. shared-prefix families, sub-handler and field '
         'ids, all storage configurations, two operators, stranger/user annotations, graceful restarts; the fake API validates '
         'annotation names as Kubernetes does; round trip via retry numbering and no-re-run, complete purge, isolation.',
         'DESIGN.md section 5 / C16',
         'validity/injectivity for ALL ids is input-space testing of pure functions; restarts are in-process (same hash seed)'),
 'C17': ('exploration',
         'Two indexed kinds and a plain one, index functions scripted per (object, call), colliding keys, re-keying, filter '
         'toggles, deletions, interleaved initial listings; index snapshots taken by a probe handler are compared with a '
         'dictionary reference model, and the first change handler/daemon/timer call must follow every initial listing+indexing '
         '(per kind and served namespace); with a worker limit the gate must still open (known finding).',
         'DESIGN.md section 5 / C17',
         'snapshots are compared at instants without an indexing step in flight and at quiescence'),
 'C19': ('exploration',
         'Namespace patterns or cluster-wide, namespaces and CRDs coming and going, stream faults at drawn positions (EOF, reset '
         'with and without partial data, server/inactivity timeout, silence, compaction -> 410, explicit 410 and unknown ERROR '
         'events, bookmarks), pauses; coverage (one watch per served pair), continuity (resume from the latest version, re-list '
         'after 410), nothing skipped at quiescence, nothing listed/watched while paused.',
         'DESIGN.md section 5 / C19',
         'coverage is judged at settled instants'),
 'C20': ('exploration',
         'Startup/cleanup handlers with outcome scripts, daemons, in-flight handlers, optional peering; one trigger per run at a '
         'drawn moment (stop flag, cancellation, permanent startup failure, failing login, failing observer, failing watcher); '
         'global order of startup calls, ready flag, logins, API requests, handler/daemon calls, cleanup calls, the peering '
         'record and the return of kopf.operator(), with a plan-derived exit bound.',
         'DESIGN.md section 5 / C20',
         'the exit bound is computed from the plan (grace periods + scripted durations + latencies + 10 s)'),
}

NOT_YET = {}

NOT_APPLICABLE = {
 'C18': 'serve_admission_request is a pure function of the review request and handler outcomes: no schedule, clock, I/O, '
        'shared state or fault for a simulator to own; deciding it is input-space testing against an RFC 6902/7386 reference, '
        'a different technique (DESIGN.md section 6).',
}

def main():
    props = [json.loads(l) for l in open(os.path.join(HERE, 'properties.jsonl'))]
    checks = []
    na = []
    for p in props:
        pid = p['id']
        if pid in CLAIMED:
            cat, text, ref, note = CLAIMED[pid]
            checks.append({
                'property_id': pid,
                'quick_cmd': f'./check {pid} --tier quick',
                'thorough_cmd': f'./check {pid} --tier thorough',
                'evidence_file': f'/verif/evidence/{pid}.json',
                'replay_cmd_template': f'./check {pid} --replay {{path}}',
                'engine': 'kopfsim',
                'level_claimed': {'category': cat, 'text': text, 'design_ref': ref},
                'level_note': note,
                'technique': TECH,
            })
        elif pid in NOT_APPLICABLE:
            na.append({'property_id': pid, 'reason': NOT_APPLICABLE[pid]})
        else:
            na.append({'property_id': pid, 'reason': NOT_YET.get(pid, 'check not built yet in this session (work in progress); not claimed')})
    manifest = {
        'version': 1,
        'setup_cmd': '/venv/bin/python -c "import hypothesis, aiohttp, sys; sys.path.insert(0, \'/repo\'); import kopf" && /verif/tools/determinism.py C01 6',
        'hooks': {
            'guard': 'KOPF_VERIF',
            'enable': 'no source hooks: every seam is reached from the harness (kopf.AiohttpSession login handler, module-attribute proxies); the guard name is reserved and unused',
            'baseline_off_cmd': 'cd /repo && /venv/bin/python -m pytest -ra -q -p no:cacheprovider --timeout=900 --continue-on-collection-errors',
            'source_commits': [],
            'add_only': True,
        },
        'engines': [{'name': 'kopfsim', 'path': '/verif/kopfsim', 'serves_properties': sorted(CLAIMED),
                     'kind_free_text': 'deterministic simulator: virtual-time asyncio loops (one per operator process), FakeCluster API model, keyed-latency fault-injecting transport, plan generator/minimiser/replayer'}],
        'checks': checks,
        'not_applicable': na,
        'notes': 'Exit codes: 0 held / 1 VIOLATION / 2 harness error. Env: VERIF_SEED, VERIF_TIER, VERIF_BUDGET_S, VERIF_PROCS, VERIF_REPO (tree under test), VERIF_OUT.',
    }
    with open(os.path.join(HERE, 'MANIFEST.json'), 'w') as f:
        json.dump(manifest, f, indent=1)
    print('claimed:', sorted(CLAIMED), 'not claimed:', [x['property_id'] for x in na])

if __name__ == '__main__':
    main()
