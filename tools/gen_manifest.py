#!/venv/bin/python
"""Writes /verif/MANIFEST.json from the table below (kept in one place so it stays consistent)."""
import json, os
HERE = os.path.dirname(os.path.dirname(os.path.abspath(__file__)))

TECH = 'deterministic simulation with fault injection: seeded search over plans (workload + fault schedule) run against the real kopf.operator() on virtual-time event loops and a fake Kubernetes API; oracles as invariants and history checks'

CLAIMED = {
 # id: (level category, text, design_ref, level_note)
 'C01': ('exploration',
         'Seeded exploration of watch-event streams through the real watcher/worker/scheduler stack in a closed loop; '
         'per-object no-overlap, order, exactly-once and no-loss oracles against what the watch stack yielded, plus the '
         'worker-limit independence bound. The retire-at-arrival race is hit by snapping deliveries onto the idle deadline.',
         'DESIGN.md section 5 / C01',
         'reference = events yielded by watching.infinite_watch (tap); FakeCluster semantics; sampled schedules'),
 'C02': ('exploration',
         'Closed-loop exploration of multi-step handling cycles (all lifecycles, sub-handlers, storages) with foreign events, '
         'kills/stops/lost responses/echo delays; view-based clauses under every fault, strict exactly-once and retry '
         'numbering in the fault-free tier, close-not-early and parent-after-children clauses against the server state.',
         'DESIGN.md section 5 / C02',
         'handler ids unique per cause; no retries=/timeout= limits (C11); reference decoding of progress records for short ids'),
 'C03': ('exploration',
         'Histories of changes, stops, kills (in-flight write applied or not), downtimes and delivery delays, then a fault-free '
         'settle window; convergence oracle at quiescence (no progress records, last-handled == final essence, handlers of '
         'the closing cycle saw the final essence, no operator writes, deletions complete).',
         'DESIGN.md section 5 / C03',
         'no API error responses are injected (C12); no name reuse (C08); independent essence reference'),
 'C05': ('exploration',
         'Every processed event of closed-loop histories (deletions, forced finalizer removal, restarts) is classified by an '
         'independent reference (documented precedence) from the server snapshot kopf was shown and compared with the cause '
         'kopf detected; every change-handler call must be compatible with it.',
         'DESIGN.md section 5 / C05',
         'first-sight ("resume") is reconstructed from the trace; no field= handlers; null == absent in essence comparison'),
 'C07': ('exploration',
         'Own-PATCH echoes delayed below/at/above the consistency timeout with foreign events queued in between; every '
         'change-handler call is checked against every own acknowledged version (integer versions ordered by the oracle); '
         'raw-event handlers must not be held back.',
         'DESIGN.md section 5 / C07',
         'no daemons/timers in this workload; versions of the fake API are integers'),
 'C09': ('exploration',
         'Daemons of every reaction type and timers of every configuration under label toggles, graceful/early/forced '
         'deletions, peering pauses and operator exits; one-instance, staged-stop, stop-requested, no-restart-after-own-exit, '
         'running-at-quiescence, no-stall (CPU watchdog) and exit-completes oracles.',
         'DESIGN.md section 5 / C09',
         'cancel-only daemons always have a cancellation_timeout; async daemons only (no threads)'),
 'C10': ('exploration',
         'Timer-only workloads over all interval/sharp/idle/initial_delay combinations, durations around the interval, error '
         'scripts and object edits; strict lower bounds and slack-carrying upper bounds on the start/end stamps.',
         'DESIGN.md section 5 / C10',
         'upper bounds carry the result-patch latency as slack; idle lower bound only (kopf may reset idling more often)'),
}

NOT_YET = {}

NOT_APPLICABLE = {
 'C18': 'serve_admission_request is a pure function of the review request and handler outcomes: no schedule, clock, I/O, '
        'shared state or fault for a simulator to own; deciding it is input-space testing against an RFC 6902/7386 reference, '
        'a different technique (DESIGN.md section 6).',
}

def main():
    props = [json.loads(l) for l in open(os.path.join(HERE, 'properties.jsonl'))]
    checks = []
    na = []
    for p in props:
        pid = p['id']
        if pid in CLAIMED:
            cat, text, ref, note = CLAIMED[pid]
            checks.append({
                'property_id': pid,
                'quick_cmd': f'./check {pid} --tier quick',
                'thorough_cmd': f'./check {pid} --tier thorough',
                'evidence_file': f'/verif/evidence/{pid}.json',
                'replay_cmd_template': f'./check {pid} --replay {{path}}',
                'engine': 'kopfsim',
                'level_claimed': {'category': cat, 'text': text, 'design_ref': ref},
                'level_note': note,
                'technique': TECH,
            })
        elif pid in NOT_APPLICABLE:
            na.append({'property_id': pid, 'reason': NOT_APPLICABLE[pid]})
        else:
            na.append({'property_id': pid, 'reason': NOT_YET.get(pid, 'check not built yet in this session (work in progress); not claimed')})
    manifest = {
        'version': 1,
        'setup_cmd': '/venv/bin/python -c "import hypothesis, aiohttp, sys; sys.path.insert(0, \'/repo\'); import kopf" && /verif/tools/determinism.py C01 6',
        'hooks': {
            'guard': 'KOPF_VERIF',
            'enable': 'no source hooks: every seam is reached from the harness (kopf.AiohttpSession login handler, module-attribute proxies); the guard name is reserved and unused',
            'baseline_off_cmd': 'cd /repo && /venv/bin/python -m pytest -ra -q -p no:cacheprovider --timeout=900 --continue-on-collection-errors',
            'source_commits': [],
            'add_only': True,
        },
        'engines': [{'name': 'kopfsim', 'path': '/verif/kopfsim', 'serves_properties': sorted(CLAIMED),
                     'kind_free_text': 'deterministic simulator: virtual-time asyncio loops (one per operator process), FakeCluster API model, keyed-latency fault-injecting transport, plan generator/minimiser/replayer'}],
        'checks': checks,
        'not_applicable': na,
        'notes': 'Exit codes: 0 held / 1 VIOLATION / 2 harness error. Env: VERIF_SEED, VERIF_TIER, VERIF_BUDGET_S, VERIF_PROCS, VERIF_REPO (tree under test), VERIF_OUT.',
    }
    with open(os.path.join(HERE, 'MANIFEST.json'), 'w') as f:
        json.dump(manifest, f, indent=1)
    print('claimed:', sorted(CLAIMED), 'not claimed:', [x['property_id'] for x in na])

if __name__ == '__main__':
    main()
