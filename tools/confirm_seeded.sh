#!/bin/bash
# usage: tools/confirm_seeded.sh <seeded-dir-name> [full]   e.g. C10-5
# Confirms an independently seeded defect in a fresh scratch worktree of /repo (outside /repo and /verif):
# the demonstration passes without the patch and fails with it; with "full" the whole pinned suite is run with the patch
# and compared with BASELINE's stable set. The worktree is removed afterwards.
set -u
ID=$1; FULL=${2:-}
S=/verif/seeded/$ID
W=/tmp/cf-$ID
git -C /repo worktree remove --force $W >/dev/null 2>&1
git -C /repo worktree add -q --detach $W HEAD || exit 3
cp /repo/kopf/_cogs/helpers/versions.py $W/kopf/_cogs/helpers/versions.py 2>/dev/null
run_demo() {
  if grep -q "__main__" $S/demo.py || ! grep -q "^def test_\|^async def test_" $S/demo.py; then
    ( cd $W && PYTHONPATH=$W timeout 600 /venv/bin/python $S/demo.py >$W.demo.log 2>&1 ); echo $?
  else
    ( cd $W && PYTHONPATH=$W timeout 600 /venv/bin/python -m pytest -q -p no:cacheprovider -c /dev/null --rootdir=$W -o asyncio_mode=auto $S/demo.py >$W.demo.log 2>&1 ); echo $?
  fi
}
A=$(run_demo)
git -C $W apply $S/patch.diff || { echo "$ID: PATCH DOES NOT APPLY"; git -C /repo worktree remove --force $W; exit 3; }
B=$(run_demo)
echo "$ID: demo without patch rc=$A, with patch rc=$B ($(tail -1 $W.demo.log | cut -c1-150))"
if [ "$FULL" = full ]; then
  ( cd $W && /venv/bin/python -m pytest -q -p no:cacheprovider --timeout=900 --continue-on-collection-errors --junitxml=$W.junit.xml >/dev/null 2>&1 )
  /venv/bin/python - <<PY
import json, xml.etree.ElementTree as ET
base=set(json.load(open('/root/.vp/BASELINE.json'))['stable_pass'])
passed=set()
for tc in ET.parse('$W.junit.xml').getroot().iter('testcase'):
    if not any(ch.tag in ('failure','error','skipped') for ch in tc): passed.add(f"{tc.get('classname')}::{tc.get('name')}")
missing=sorted(base-passed)
print(f"$ID: suite with patch: passed={len(passed)} stable={len(base)} missing={len(missing)}", missing[:5])
PY
fi
git -C /repo worktree remove --force $W; rm -f $W.demo.log $W.junit.xml
