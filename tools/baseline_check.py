#!/venv/bin/python
"""Runs /repo's test suite (guard off: there are no hooks) and compares the passed set with BASELINE.json's stable_pass."""
import json, subprocess, sys, xml.etree.ElementTree as ET, os, tempfile
out = tempfile.mktemp(suffix='.junit.xml', dir='/tmp')
cmd = f"cd /repo && /venv/bin/python -m pytest -ra -q -p no:cacheprovider --timeout=900 --continue-on-collection-errors --junitxml={out} " + ' '.join(sys.argv[1:])
r = subprocess.run(cmd, shell=True, capture_output=True, text=True)
base = json.load(open('/root/.vp/BASELINE.json'))
passed = set()
for tc in ET.parse(out).getroot().iter('testcase'):
    if not any(ch.tag in ('failure', 'error', 'skipped') for ch in tc):
        passed.add(f"{tc.get('classname')}::{tc.get('name')}")
stable = set(base['stable_pass'])
missing = sorted(stable - passed)
print(f"passed={len(passed)} stable_pass={len(stable)} missing_from_passed={len(missing)}")
for m in missing[:30]:
    print('  MISSING', m)
os.remove(out)
sys.exit(1 if missing else 0)
