#!/bin/bash
# usage: tools/mutant_sweep.sh [budget] [pattern] -- runs every mutants/<cNN>-*.patch (and seeded/<ID>/patch.diff) against its property;
# writes mutants/RESULTS.tsv: name, property, caught(yes/no), first clause/sig seen.
BUDGET=${1:-30}; PAT=${2:-}
HERE=$(cd "$(dirname "$0")/.." && pwd)
OUT=$HERE/mutants/RESULTS.tsv
: > "$OUT.tmp"
for f in $HERE/mutants/*$PAT*.patch $HERE/seeded/*/patch.diff; do
  [ -f "$f" ] || continue
  case "$f" in
    */seeded/*) name="seeded-$(basename $(dirname $f))"; prop=$(basename $(dirname $f) | cut -c1-3)
       # a defect whose schedule is another property's subject is run against the check recorded in its meta.json
       alt=$(/venv/bin/python -c "import json,sys,re; m=json.load(open(sys.argv[1])).get('verif',{}); c=str(m.get('check','')); g=re.match(r'(C\d\d)',c); print(g.group(1) if g and m.get('caught') else ('SKIP' if m.get('caught') is False else ''))" "$(dirname $f)/meta.json" 2>/dev/null)
       [ "$alt" = "SKIP" ] && { echo -e "$name\t$prop\tnot-caught(recorded)\t-" | tee -a "$OUT.tmp"; continue; }
       [ -n "$alt" ] && prop=$alt;;
    *) name=$(basename $f .patch); prop=$(echo $name | cut -c1-3 | tr a-z A-Z);;
  esac
  res=$(TAIL=40 $HERE/tools/mutant.sh "$f" $prop $BUDGET 2>&1)
  rc=$(echo "$res" | grep -o "exit=[0-9]*" | tail -1 | cut -d= -f2)
  first=$(echo "$res" | grep -m1 "clause=" | sed 's/^ *//' | cut -c1-120)
  echo -e "$name\t$prop\t$([ "$rc" = "1" ] && echo yes || echo "no(rc=$rc)")\t$first" | tee -a "$OUT.tmp"
done
mv "$OUT.tmp" "$OUT"
