#!/venv/bin/python
"""
Determinism self-test: the same plans must give the same trace digests
 (a) twice in one process, (b) in a fresh interpreter, (c) at another worker count (via batch),
 and (informational) under another PYTHONHASHSEED.
usage: tools/determinism.py PROP [N]
"""
import importlib, json, os, subprocess, sys
HERE = os.path.dirname(os.path.dirname(os.path.abspath(__file__)))
if os.environ.get('PYTHONHASHSEED') is None:
    os.environ['PYTHONHASHSEED'] = '0'
    os.execv(sys.executable, [sys.executable] + sys.argv)
sys.path.insert(0, os.environ.get('VERIF_REPO', '/repo')); sys.path.insert(0, HERE)
from kopfsim import search

def digests(prop, n, seed=20260924):
    out = []
    for i in range(n):
        plan = search.plan_for(prop, seed, i, 'quick')
        oc = prop.evaluate(plan)
        out.append((oc.digest, sorted(v.key() for v in oc.violations)))
    return out

if __name__ == '__main__':
    prop = importlib.import_module(f'kopfsim.props.{sys.argv[1].lower()}')
    n = int(sys.argv[2]) if len(sys.argv) > 2 else 40
    if len(sys.argv) > 3 and sys.argv[3] == '--child':
        print(json.dumps(digests(prop, n)))
        sys.exit(0)
    a = digests(prop, n)
    b = digests(prop, n)
    bad = [i for i in range(n) if a[i] != b[i]]
    print(f"{sys.argv[1]}: same process twice: {n - len(bad)}/{n} equal" + (f" MISMATCH at {bad[:10]}" if bad else ''))
    rc = 1 if bad else 0
    for hs in ('0', '12345'):
        env = dict(os.environ, PYTHONHASHSEED=hs)
        out = subprocess.run([sys.executable, __file__, sys.argv[1], str(n), '--child'], env=env,
                             capture_output=True, text=True)
        try:
            c = [tuple(x) for x in json.loads(out.stdout.strip().splitlines()[-1])]
        except Exception:
            print('child failed:', out.stderr[-2000:]); sys.exit(2)
        c = [(d, v) for d, v in c]
        bad = [i for i in range(n) if (a[i][0], a[i][1]) != (c[i][0], c[i][1])]
        tag = 'fresh interpreter, PYTHONHASHSEED=' + hs
        print(f"{sys.argv[1]}: {tag}: {n - len(bad)}/{n} equal" + (f" MISMATCH at {bad[:10]}" if bad else ''))
        if bad and hs == '0':
            rc = 1
    sys.exit(rc)
