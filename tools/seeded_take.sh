#!/bin/bash
# usage: tools/seeded_take.sh <PROP> <round> [budget] [check-prop]  -- takes /tmp/wt<round>-<PROP>-out into seeded/<PROP>-<round>, confirms the demo, runs the check
P=$1; R=$2; B=${3:-40}; C=${4:-$P}
D=/verif/seeded/$P-$R; mkdir -p $D
cp /tmp/wt$R-$P-out/patch.diff /tmp/wt$R-$P-out/demo.py /tmp/wt$R-$P-out/meta.json $D/ || exit 3
/verif/tools/confirm_seeded.sh $P-$R | tail -2
TAIL=6 /verif/tools/mutant.sh $D/patch.diff $C $B 2>&1 | grep -v "^KNOWN" | cut -c1-600
