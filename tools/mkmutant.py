#!/venv/bin/python
"""usage: mkmutant.py NAME FILE OLD NEW  -- writes mutants/NAME.patch (unified diff of /repo/FILE with OLD->NEW, once)."""
import difflib, sys, os
name, path, old, new = sys.argv[1:5]
src = open(os.path.join('/repo', path)).read()
assert src.count(old) >= 1, f"pattern not found in {path}"
dst = src.replace(old, new, 1)
diff = difflib.unified_diff(src.splitlines(True), dst.splitlines(True), f'a/{path}', f'b/{path}')
out = os.path.join(os.path.dirname(os.path.dirname(os.path.abspath(__file__))), 'mutants', name + '.patch')
open(out, 'w').write(''.join(diff))
print('wrote', out)
