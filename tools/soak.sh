#!/bin/bash
# usage: tools/soak.sh "<props>" "<seeds>" <budget_s> [procs]  -- runs each check with each seed; prints one summary per run.
PROPS=${1:-"C01 C02 C03 C05 C06 C07 C08 C09 C10 C11 C12"}; SEEDS=${2:-"11 12 13"}; BUDGET=${3:-120}; PROCS=${4:-8}
HERE=$(cd "$(dirname "$0")/.." && pwd)
export VERIF_OUT=${VERIF_OUT:-$HERE/soak-out}
mkdir -p "$VERIF_OUT"
for seed in $SEEDS; do for p in $PROPS; do
  echo "### $p seed=$seed"
  VERIF_SEED=$seed timeout $((BUDGET*6+600)) "$HERE/check" $p --budget $BUDGET --procs $PROCS 2>&1 | grep -E "VIOLATION|clause=|HARNESS|^\[C|^  [a-zA-Z]" | cut -c1-400
done; done
