#!/venv/bin/python
"""usage: seeded_result.py <ID> <caught:true|false> <by-check> <clause/sig> [note]  -- records the outcome in seeded/<ID>/meta.json"""
import json, sys, os
sid, caught, by, what = sys.argv[1:5]
note = sys.argv[5] if len(sys.argv) > 5 else ''
p = os.path.join(os.path.dirname(os.path.dirname(os.path.abspath(__file__))), 'seeded', sid, 'meta.json')
d = json.load(open(p))
d['verif'] = {'confirmed_breaks_property': True, 'caught': caught == 'true', 'check': by, 'violation': what, 'note': note}
json.dump(d, open(p, 'w'), indent=1)
print('recorded', p)
