#!/bin/bash
# usage: tools/mutant.sh <patch-file> <PROP> [budget] -- runs the check against a scratch copy of /repo with the patch applied.
set -u
PATCH=$(readlink -f "$1"); PROP=$2; BUDGET=${3:-30}
D=$(mktemp -d /tmp/kopf-mut-XXXXXX)
rsync -a --exclude .git --exclude '*.egg-info' --exclude docs --exclude tests /repo/ "$D/"
( cd "$D" && patch -p1 -s < "$PATCH" ) || { echo "PATCH FAILED"; rm -rf "$D"; exit 3; }
OUT=$(mktemp -d /tmp/kopf-mut-out-XXXXXX)
VERIF_REPO="$D" VERIF_OUT="$OUT" timeout ${TMO:-900} /verif/check "$PROP" --budget "$BUDGET" ${EXTRA:-} 2>&1 | grep -v "conda" | tail -${TAIL:-12}
RC=${PIPESTATUS[0]}
# replay determinism check on the first replay, if any
R=$(ls "$OUT"/replays/*.json 2>/dev/null | head -1)
if [ -n "$R" ]; then VERIF_REPO="$D" VERIF_OUT="$OUT" timeout 120 /verif/check "$PROP" --replay "$R" 2>&1 | grep -E "REPRODUCED|NOT REPRODUCED"; fi
rm -rf "$D" "$OUT"
echo "exit=$RC"
exit $RC
