"""Genuine-defect demonstration on the real asyncio loop + real aiohttp + default GC (not a registered check):
the inactivity timeout of a watch-stream abandoned on "410 Gone" cancels the watcher task later. Fixed by 4f57f45.
Run: /venv/bin/python findings/real_loop_stale_inactivity_timeout.py 4.0"""
"""Real asyncio + real aiohttp + default GC: broken payload, then 410 -> is the watcher cancelled by a stale timeout?"""
import asyncio, json, sys, logging, gc
sys.path.insert(0, '/repo')
import aiohttp, aiohttp.web
import kopf
from kopf._cogs.clients import watching, auth
from kopf._cogs.structs import credentials, references
from kopf._cogs.configs import configuration

conns = 0
async def widgets(request: aiohttp.web.Request):
    global conns
    if request.query.get('watch') != 'true':
        return aiohttp.web.json_response({'metadata': {'resourceVersion': '100'}, 'items': []})
    conns += 1
    n = conns
    print('watch conn', n, 'rv', request.query.get('resourceVersion'), flush=True)
    resp = aiohttp.web.StreamResponse()
    resp.enable_chunked_encoding()
    await resp.prepare(request)
    ev = {'type': 'ADDED', 'object': {'metadata': {'name': f'w{n}', 'namespace': 'default', 'uid': f'u{n}', 'resourceVersion': str(100+n)}}}
    await resp.write(json.dumps(ev).encode() + b'\n')
    await asyncio.sleep(0.1 if n == 1 else 0.5)
    if n == 1:
        # break the connection in the middle of a chunked payload
        request.transport.abort()
        return resp
    if n == 2:
        await asyncio.sleep(0.5)
        await resp.write(json.dumps({'type': 'ERROR', 'object': {'code': 410, 'message': 'too old'}}).encode() + b'\n')
        await asyncio.sleep(30)
        return resp
    # later connections: an event every second, so the stream is never inactive
    for k in range(60):
        ev['object']['metadata']['resourceVersion'] = str(200 + n*100 + k)
        await resp.write(json.dumps(ev).encode() + b'\n')
        await asyncio.sleep(1.0)
    return resp

async def main():
    app = aiohttp.web.Application()
    app.router.add_get('/apis/sim.dev/v1/widgets', widgets)
    runner = aiohttp.web.AppRunner(app); await runner.setup()
    site = aiohttp.web.TCPSite(runner, '127.0.0.1', 18099); await site.start()
    vault = credentials.Vault()
    await vault.populate({'x': credentials.ConnectionInfo(server='http://127.0.0.1:18099')})
    auth.vault_var.set(vault)
    settings = configuration.OperatorSettings()
    settings.watching.inactivity_timeout = float(sys.argv[1]) if len(sys.argv) > 1 else 4.0
    settings.watching.reconnect_backoff = 0.1
    res = references.Resource(group='sim.dev', version='v1', plural='widgets', kind='Widget', singular='widget', shortcuts=frozenset(), categories=frozenset(), subresources=frozenset(), namespaced=True, preferred=True, verbs=frozenset(['list','watch','patch']))
    async def watcher():
        async for ev in watching.infinite_watch(settings=settings, resource=res, namespace=None):
            await asyncio.sleep(0.3 if conns == 1 else 0)
            print(f'{asyncio.get_running_loop().time()-t0:6.2f} event', ev if not isinstance(ev, dict) else (ev['type'], ev['object']['metadata']['name'], ev['object']['metadata']['resourceVersion']), flush=True)
    t0 = asyncio.get_running_loop().time()
    task = asyncio.create_task(watcher(), name='watcher')
    done, _ = await asyncio.wait([task], timeout=15)
    print('gc counts', gc.get_count(), 'enabled', gc.isenabled())
    if done:
        print(f'WATCHER ENDED at ~{asyncio.get_running_loop().time()-t0:.2f}: cancelled={task.cancelled()}', 'exc=' + repr(task.exception()) if not task.cancelled() else '')
    else:
        print('watcher alive after 15s'); task.cancel()
    await runner.cleanup()
logging.basicConfig(level=logging.DEBUG if '-v' in sys.argv else logging.WARNING)
if "--nogc" in sys.argv: gc.disable()
asyncio.run(main())
