"""
Harness-side observation points ("taps"): thin wrappers around module-level names that kopf
calls through its own module globals. Nothing in /repo is edited; the wrapped originals are
the functions of the tree under test. All taps are passive: no extra suspension points,
no draws from any PRNG, no reads of real clocks.
"""
from __future__ import annotations

import asyncio
import types
from typing import Any, Optional

from kopfsim import core

_installed_for: Optional[str] = None


def _loop_name() -> str:
    loop = asyncio.get_running_loop()
    return getattr(loop, 'name', '?')


def install() -> None:
    global _installed_for
    import kopf
    if _installed_for == kopf.__file__:
        return
    from kopf._cogs.clients import watching
    from kopf._core.reactor import queueing

    orig_infinite_watch = watching.infinite_watch

    async def tapped_infinite_watch(**kwargs: Any) -> Any:
        resource = kwargs.get('resource')
        namespace = kwargs.get('namespace')
        plural = getattr(resource, 'plural', None)
        name = _loop_name()
        how = 'exhausted'
        inner = orig_infinite_watch(**kwargs)
        try:
            async for ev in inner:
                sim = core.CURRENT
                if sim is not None:
                    if isinstance(ev, dict):
                        obj = ev.get('object') or {}
                        meta = obj.get('metadata') or {}
                        sim.log('yield', name, plural, namespace, ev.get('type'),
                                meta.get('uid'), meta.get('resourceVersion'), meta.get('name'))
                    else:
                        sim.log('yield', name, plural, namespace, 'LISTED', None, None, None)
                yield ev
        except GeneratorExit:
            how = 'closed'
            raise
        except asyncio.CancelledError:
            how = 'cancelled'
            raise
        except BaseException as e:
            how = 'error:' + type(e).__name__
            raise
        finally:
            sim = core.CURRENT
            if sim is not None:
                sim.log('watch-exit', name, plural, namespace, how)
            await inner.aclose()

    watching.infinite_watch = tapped_infinite_watch  # type: ignore[assignment]

    orig_worker = queueing.worker

    async def tapped_worker(**kwargs: Any) -> None:
        key = kwargs.get('key')
        sim = core.CURRENT
        plural = getattr(key[0], 'plural', None) if key else None
        uid = key[1] if key else None
        name = _loop_name()
        if sim is not None:
            sim.log('worker+', name, plural, uid)
        try:
            await orig_worker(**kwargs)
        finally:
            if sim is not None and core.CURRENT is sim:
                sim.log('worker-', name, plural, uid)

    queueing.worker = tapped_worker  # type: ignore[assignment]

    from kopf._core.engines import peering
    orig_peering_event = peering.process_peering_event

    async def tapped_peering_event(**kwargs: Any) -> None:
        sim = core.CURRENT
        if sim is not None:
            raw = kwargs.get('raw_event') or {}
            meta = (raw.get('object') or {}).get('metadata') or {}
            sim.log('peer-proc', _loop_name(), raw.get('type'), meta.get('name'), meta.get('resourceVersion'))
        return await orig_peering_event(**kwargs)

    peering.process_peering_event = tapped_peering_event  # type: ignore[assignment]

    real_wait_for = asyncio.wait_for

    async def probing_wait_for(fut: Any, timeout: Optional[float]) -> Any:
        q = None
        frame = getattr(fut, 'cr_frame', None)
        if frame is not None and getattr(fut, '__name__', '') == 'get':
            q = frame.f_locals.get('self')
        try:
            return await real_wait_for(fut, timeout)
        except asyncio.TimeoutError:
            sim = core.CURRENT
            if sim is not None and q is not None:
                sim.count('probe.worker-idle-timeout')
                if not q.empty():
                    sim.count('probe.timeout-with-nonempty-backlog')
                    sim.log('probe', 'timeout-with-nonempty-backlog')
            raise

    proxy = types.ModuleType('asyncio')
    proxy.__dict__.update({k: v for k, v in asyncio.__dict__.items() if not k.startswith('__')})
    proxy.wait_for = probing_wait_for  # type: ignore[attr-defined]
    queueing.asyncio = proxy  # type: ignore[attr-defined]

    from kopf._core.reactor import processing
    orig_process = processing.process_resource_event

    async def tapped_process_resource_event(*args: Any, **kwargs: Any) -> Any:
        sim = core.CURRENT
        raw_event = kwargs.get('raw_event') or {}
        resource = kwargs.get('resource')
        obj = raw_event.get('object') or {}
        meta = obj.get('metadata') or {}
        name = _loop_name()
        plural = getattr(resource, 'plural', None)
        if sim is not None:
            sim.log('proc+', name, plural, meta.get('uid'), raw_event.get('type'),
                    meta.get('resourceVersion'), kwargs.get('consistency_time'))
        result = None
        how = 'raised'
        try:
            result = await orig_process(*args, **kwargs)
            how = 'returned'
            return result
        except asyncio.CancelledError:
            how = 'cancelled'
            raise
        finally:
            if sim is not None and core.CURRENT is sim:
                sim.log('proc-', name, plural, meta.get('uid'), how, result)

    processing.process_resource_event = tapped_process_resource_event  # type: ignore[assignment]

    from kopf._core.intents import causes
    orig_detect = causes.detect_changing_cause

    def tapped_detect_changing_cause(**kwargs: Any) -> Any:
        cause = orig_detect(**kwargs)
        sim = core.CURRENT
        if sim is not None:
            raw_event = kwargs.get('raw_event') or {}
            meta = (raw_event.get('object') or {}).get('metadata') or {}
            sim.log('cause', _loop_name(), meta.get('uid'), str(getattr(cause.reason, 'value', cause.reason)),
                    bool(cause.initial), raw_event.get('type'), meta.get('resourceVersion'),
                    kwargs.get('old') is not None, bool(kwargs.get('diff')))
        return cause

    causes.detect_changing_cause = tapped_detect_changing_cause  # type: ignore[assignment]

    _installed_for = kopf.__file__
