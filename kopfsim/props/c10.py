"""
C10 -- Timer schedule laws: no self-overlap, interval/sharp/idle/initial-delay timing.
"""
from __future__ import annotations

from typing import Any, Optional

from kopfsim import runner
from kopfsim.props import changes, common, spawning
from kopfsim.search import Chooser, Outcome

ID = 'C10'
TITLE = 'Timer schedule laws: no self-overlap, interval/sharp/idle/initial-delay timing'
LEVEL = 'exploration'
RULE = ('timers only: every combination of interval / sharp / idle / initial_delay (incl. absent), handler durations '
        'shorter, equal and longer than the interval, outcome scripts (ok / temporary with delay / arbitrary error with '
        'backoff), object edits (essential and not) and label toggles at drawn times, API latency on result patches. '
        'From the start/end stamps of the timer function: no overlap; next start >= end + interval (or on the grid from '
        'the previous start when sharp); after a failure >= end + delay|backoff; first start >= first processing + '
        'initial_delay; no start within idle after a processed essential change; and the timer does fire again within '
        'interval + slack when nothing postpones it. Distinct = abstract trace signature; non-trivial = a timer ran at '
        'least 3 times or a failure/edit interfered.')
COMPONENTS = common.COMPONENTS
ASSUMPTIONS = common.BASE_ASSUMPTIONS + [
    'lower bounds are strict (eps = scheduling hops); upper bounds carry the API latency of the result patch as slack',
    'kopf may reset the idle clock more often than on essential changes (it only postpones runs further)',
]
EPS = 0.005


def gen_plan(ch: Chooser, tier: str) -> dict[str, Any]:
    plan = spawning.gen_spawning_plan(ch, daemons=(0, 0), timers=(1, 3), pauses=False, exits=False, sync_share=ch.choice([0.0, 0.0, 0.5]),
                                      max_objects=2, horizon=ch.choice([12.0, 25.0]))
    plan['until'] = plan['horizon'] + 20.0
    return plan


def oracle(run: runner.Run, oc: Outcome) -> None:
    opid = 'op1'
    spec = common.spec_of(run, opid)
    hspecs = common.handler_specs(run, opid)
    default_backoff = float(spec['settings'].get('default_backoff', 60.0))
    lat = float(run.plan['net'].get('lat_hi', 0.01))
    slack = 6 * lat + 0.1
    steps = changes.extract_steps(run)
    snaps = common.snapshots(run)
    rd = run.rdef('widgets')
    by_inst: dict[tuple[int, str, str], list[runner.Call]] = {}
    for c in run.calls:
        if c.hkind == 'timer' and c.uid is not None:
            by_inst.setdefault((c.inc, c.uid, c.hid), []).append(c)

    # per object: times at which the operator processed an essential external change
    ess_steps: dict[str, list[float]] = {}
    disturb: dict[str, list[float]] = {}
    for uid in {k[1] for k in by_inst}:
        writes = [t for t in run.transitions if t.uid == uid and not common.is_operator_actor(run, t.actor)
                  and t.before is not None and t.after is not None]
        for t in writes:
            disturb.setdefault(uid, []).append(t.t)
            if not common.essence_eq(common.ref_essence(t.before), common.ref_essence(t.after)):
                rv = int(t.after['metadata']['resourceVersion'])
                for s in steps.get((opid, uid), []):
                    try:
                        if int(s.rv) >= rv:
                            ess_steps.setdefault(uid, []).append(s.t0)
                            break
                    except (TypeError, ValueError):
                        continue
        for t in run.transitions:
            if t.uid == uid and t.verb in ('delete', 'delete-mark'):
                disturb.setdefault(uid, []).append(t.t)

    busy = 0
    for (inc, uid, hid), calls in by_inst.items():
        h = hspecs[hid]
        o = h.get('opts', {})
        interval: Optional[float] = o.get('interval')
        sharp = bool(o.get('sharp'))
        idle: Optional[float] = o.get('idle')
        initial: Optional[float] = o.get('initial_delay')
        backoff = float(o.get('backoff', default_backoff))
        if len(calls) >= 3:
            busy += 1
        # first start not earlier than the initial delay after the object was first processed
        first_step = min((s.t0 for s in steps.get((opid, uid), []) if s.actor == f'{opid}#{inc}'), default=None)
        if initial and first_step is not None and calls[0].n == 0 and calls[0].t0 < first_step + initial - EPS:
            oc.add('C10/initial-delay', 'too-early',
                   f"timer {hid} of {uid} first ran at t={calls[0].t0:.4f}, i.e. {calls[0].t0 - first_step:.4f}s after "
                   f"the object was first processed, but initial_delay={initial}", uid=uid, hid=hid)
        for a, b in zip(calls, calls[1:]):
            if a.t1 is None or b.t0 < a.t1 - 1e-9:
                oc.add('C10/overlap', 'overlap',
                       f"timer {hid} of {uid} started at t={b.t0:.4f} while its previous run (since {a.t0:.4f}) "
                       f"had not ended ({a.t1})", uid=uid, hid=hid)
                continue
            gap = b.t0 - a.t1
            respawned = any(a.t0 - 0.2 <= t <= b.t0 for t in disturb.get(uid, []))  # a toggle may restart the timer
            if a.outcome == 'ok':
                if interval is not None and not sharp and gap < interval - EPS and not respawned:
                    oc.add('C10/interval', 'too-early',
                           f"timer {hid} of {uid}: run ended at t={a.t1:.4f}, next started at t={b.t0:.4f}: "
                           f"{gap:.4f}s < interval={interval}", uid=uid, hid=hid)
                if interval is not None and sharp and not respawned:
                    k = (b.t0 - a.t0) / interval
                    # on the grid counted from the previous start; idling may postpone it off-grid
                    if abs(k - round(k)) * interval > slack and round(k) >= 1 and idle is None:
                        oc.add('C10/sharp', 'off-grid',
                               f"sharp timer {hid} of {uid}: starts at {a.t0:.4f} and {b.t0:.4f} are "
                               f"{b.t0 - a.t0:.4f}s apart: not a multiple of interval={interval}", uid=uid, hid=hid)
                    if b.t0 - a.t0 < interval - EPS:
                        oc.add('C10/sharp', 'too-early',
                               f"sharp timer {hid} of {uid}: starts {b.t0 - a.t0:.4f}s apart < interval={interval}",
                               uid=uid, hid=hid)
            elif a.outcome in ('temp', 'exc') and not respawned:
                step = runner._script_step(h.get('script', []), a.n)
                want = float(step.get('delay', 1.0)) if a.outcome == 'temp' else backoff
                if gap < want - EPS:
                    oc.add('C10/error-delay', a.outcome,
                           f"timer {hid} of {uid}: failed run ended at t={a.t1:.4f}, retried at t={b.t0:.4f}: "
                           f"{gap:.4f}s < {'delay' if a.outcome == 'temp' else 'backoff'}={want}", uid=uid, hid=hid)
            # upper bound: it does fire again when nothing postpones it
            if a.outcome == 'ok' and interval is not None and idle is None and not respawned:
                due = a.t1 + interval if not sharp else None
                if due is not None and b.t0 > due + slack:
                    oc.add('C10/late', 'interval',
                           f"timer {hid} of {uid}: run ended at t={a.t1:.4f}; next start at t={b.t0:.4f} is "
                           f"{b.t0 - due:.4f}s later than end+interval although nothing postponed it", uid=uid, hid=hid)
        # idle: no start within `idle` after the operator processed an essential change
        if idle is not None:
            for c in calls:
                for t_p in ess_steps.get(uid, []):
                    if t_p + 0.02 < c.t0 < t_p + idle - EPS:
                        oc.add('C10/idle', 'ran-while-busy',
                               f"timer {hid} of {uid} started at t={c.t0:.4f}, only {c.t0 - t_p:.4f}s after the operator "
                               f"processed an essential change (t={t_p:.4f}); idle={idle}", uid=uid, hid=hid)
                        break
        # liveness of the last run: the timer keeps firing for a live, matching object
        last = calls[-1]
        obj = next((x for x in run.cluster.list(rd, None) if x['metadata']['uid'] == uid), None)
        if obj is not None and obj['metadata'].get('deletionTimestamp') is None and spawning.matches(h, obj) \
                and interval is not None and idle is None and last.t1 is not None and last.outcome == 'ok' \
                and not any(t >= last.t0 - 0.2 for t in disturb.get(uid, [])) and inc == (run.op(opid).incarnation if run.op(opid) else inc):
            if run.sim.now > last.t1 + (2 * interval if sharp else interval) + slack:
                oc.add('C10/late', 'stopped-firing',
                       f"timer {hid} of {uid} last ended at t={last.t1:.4f} and did not fire again until "
                       f"t={run.sim.now:.2f} (interval={interval})", uid=uid, hid=hid)
    oc.probes['probe.timer-3-runs'] = busy
    if busy:
        oc.nontrivial = True


def evaluate(plan: dict[str, Any]) -> Outcome:
    return common.evaluate_closed_loop(plan, oracle, stall_is_violation='C10/stall')
