"""
C16 -- Persistence storages round-trip, isolate and produce valid annotation names (system-level part).
"""
from __future__ import annotations

import copy
from typing import Any

from kopfsim import runner
from kopfsim.props import changes, common
from kopfsim.search import Chooser, Outcome

ID = 'C16'
TITLE = 'Persistence storages round-trip, isolate and produce valid annotation names'
LEVEL = 'exploration'
RULE = ('one or two operators with drawn storage configurations (annotations v1+v2 / v2 only, status, smart; default and '
        'custom prefixes) serve the same objects; handler ids are drawn from [A-Za-z0-9_./<>-]{1,300}, including '
        'families that share a 70+ character prefix, sub-handlers (path ids) and field handlers (suffixed ids); scripts '
        'with temporary failures carrying unicode messages; user annotations and annotations of a stranger present; '
        'graceful restarts in the middle of cycles; the fake API validates every annotation name and the total size as '
        'Kubernetes does. Oracle: no write is refused as invalid; per handling cycle every handler is invoked with retry '
        'numbers 0,1,2,... and not again after its final outcome (two ids colliding on one key, or a record lost in the '
        'round trip, break this); at quiescence nothing but the last-handled state, the marker and the touch dummy is '
        'left under the operator\'s prefix / status stanza; no write of one operator changes annotations or status '
        'stanzas that are not its own. Distinct = abstract trace signature; non-trivial = an id longer than 63 '
        'characters or a shared-prefix family went through a multi-step cycle.')
COMPONENTS = common.COMPONENTS
ASSUMPTIONS = common.BASE_ASSUMPTIONS + [
    'validity / injectivity / round-trip for ALL ids and records is input-space testing of pure functions; the workload '
    'samples the id space and decides only the system-level contract',
    '"identical across restarts" is checked across in-process restarts (same interpreter hash seed)',
]
REDUCIBLE = ['actions', 'objects']
ALPHABET = 'ABCDEFGHIJKLMNOPQRSTUVWXYZabcdefghijklmnopqrstuvwxyz0123456789_./<>-'
FINAL_WINDOW = 30.0
_FLAT = str.maketrans({'/': '.', '<': '_', '>': '_'})


def _gen_id(ch: Chooser, family: str) -> str:
    kind = ch.weighted([('short', 3), ('medium', 2), ('long', 2), ('family', 2), ('edge', 1)])
    if kind == 'short':
        n = ch.int(1, 12)
    elif kind == 'medium':
        n = ch.int(40, 70)
    elif kind == 'long':
        n = ch.int(100, 300)
    elif kind == 'family':
        return family + ''.join(ch.choice(ALPHABET) for _ in range(ch.int(1, 8))) + 'q'
    else:
        return ch.choice(['a' * 63, 'b' * 64, 'x.y/z', 'fn/spec.field', '<lambda>', 'Z' * 253, 'k-', '-k', 'a..b'])
    body = ''.join(ch.choice(ALPHABET) for _ in range(n))
    # mostly as functions and fields are called: alphanumeric at both ends (the 'edge' family covers the rest)
    return 'h' + body + ('' if body[-1:].isalnum() else 'z')


def gen_plan(ch: Chooser, tier: str) -> dict[str, Any]:
    plan = changes.gen_change_plan(ch, faults=False, restarts=ch.bool(0.4), deletes=ch.bool(0.3), subs=ch.bool(0.4),
                                   causes=('create', 'update', 'delete'), max_failures=2, allow_perm=False,
                                   api_faults=False, late_start=False, edits=(2, 8), max_objects=2, nonessential=True,
                                   horizon=ch.choice([15.0, 30.0]))
    # graceful restarts only (an un-persisted attempt is C02's subject)
    for a in plan['actions']:
        if a['do'] in ('kill', 'cancel'):
            a['do'] = 'stop'
            a.pop('inflight_lands', None)
    op1 = plan['operators'][0]
    family = 'fam' + ''.join(ch.choice(ALPHABET[:52]) for _ in range(ch.int(70, 90)))
    used: set[str] = set()
    for h in op1['handlers']:
        new_id = _gen_id(ch, family)
        while new_id in used:
            new_id += 'x'
        used.add(new_id)
        h['id'] = new_id
        for step in h.get('script', []):
            if step.get('do') == 'temp':
                step['message'] = ch.choice(['сбой ☃', 'x' * 200, 'line1\nline2', '"quoted" \\ back'])
        sub_ids: set[str] = set()
        for sub in h.get('subs', []):
            sid = _gen_id(ch, family)[:ch.int(1, 120)] + 'e'
            while sid in sub_ids:   # siblings must differ, as functions of one parent do
                sid += 'e'
            sub_ids.add(sid)
            sub['id'] = sid
    # twins: two long ids of one cause that differ only in characters the key convention maps to the same one
    # (a sub-handler path 'parent/volumes' next to a function registered as 'parent.volumes')
    by_kind: dict[str, list[dict[str, Any]]] = {}
    for h in op1['handlers']:
        by_kind.setdefault(h['kind'], []).append(h)
    pairs = [hs for hs in by_kind.values() if len(hs) >= 2]
    if pairs and ch.bool(0.25):
        h_a, h_b = ch.choice(pairs)[:2]
        base = 'tw' + ''.join(ch.choice(ALPHABET[:62]) for _ in range(ch.int(56, 80)))
        a_sep, b_sep = ch.choice([('/', '.'), ('<', '_'), ('>', '_'), ('/', '.')])
        tail = ch.choice(['volumes', 'v', 'spec.field'])
        h_a['id'], h_b['id'] = base + a_sep + tail, base + b_sep + tail
    st = ch.choice([None, {'progress': 'annotations'}, {'progress': 'annotations', 'v1': False},
                    {'progress': 'smart'}, {'progress': 'status', 'diffbase': 'status'},
                    {'progress': 'annotations', 'prefix': 'ops.example.com'},
                    {'progress': 'annotations', 'prefix': 'my-op.kopf.zalando.org', 'v1': False}])
    if st:
        op1['settings']['storage'] = st
    else:
        op1['settings'].pop('storage', None)
    for obj in plan['objects']:
        obj['body'].setdefault('metadata', {}).setdefault('annotations', {}).update(
            {'user.example.com/keep': 'me', 'plain': 'value', 'stranger.io/some-handler': '{"retries":1}'})
    for a in plan['actions']:
        if a['do'] == 'create':
            a['body'].setdefault('metadata', {}).setdefault('annotations', {}).update({'user.example.com/keep': 'me'})
    if ch.bool(0.4):
        st2 = ch.choice([{'progress': 'annotations', 'prefix': 'second.example.org'},
                         {'progress': 'status', 'diffbase': 'status', 'name': 'kopf2'},
                         {'progress': 'smart', 'prefix': 'second.kopf.zalando.org', 'name': 'kopf2'}])
        if st and st.get('prefix') == st2.get('prefix'):
            st2['prefix'] = 'third.example.org'
        settings2 = copy.deepcopy(op1['settings'])
        settings2['storage'] = st2
        settings2['finalizer'] = 'second.example.org/finalizer'
        handlers2 = [{'id': _gen_id(ch, family), 'kind': 'create', 'opts': {},
                      'script': [{'do': 'temp', 'dur': 0.0, 'delay': 0.3}, {'do': 'ok', 'dur': 0.0}]},
                     {'id': _gen_id(ch, family), 'kind': 'update', 'opts': {},
                      'script': [{'do': 'temp', 'dur': 0.0, 'delay': 0.3}, {'do': 'ok', 'dur': 0.1}]}]
        plan['operators'].append({'id': 'op2', 'settings': settings2, 'handlers': handlers2, 'standalone': True,
                                  'lifecycle': None})
        plan['actions'].append({'t': 0.0, 'do': 'start', 'op': 'op2'})
        plan['actions'].sort(key=lambda a: a['t'])
    if ch.bool(0.3):
        _add_drs_profile(ch, plan)
    plan['until'] = plan['faults_stop'] + 100.0
    return plan


def _add_drs_profile(ch: Chooser, plan: dict[str, Any]) -> None:
    """A Deployment and a ReplicaSet it owns, served by the same operator (the '-ofDRS' convention)."""
    plan['kinds'] += [{'plural': 'deployments', 'group': 'apps', 'version': 'v1', 'kind': 'Deployment'},
                      {'plural': 'replicasets', 'group': 'apps', 'version': 'v1', 'kind': 'ReplicaSet'}]
    op1 = plan['operators'][0]
    for kind in ('deployments', 'replicasets'):
        # ids around the length at which the mark of an owned ReplicaSet (6 more characters) pushes the name over the limit
        pad = ''.join(ch.choice(ALPHABET[:62]) for _ in range(ch.choice([0, 0, 50, 51, 52, 54, 57, 58, 94])))
        op1['handlers'].append({'id': f'mk-{kind[:3]}{pad}', 'kind': 'create', 'resource': kind, 'opts': {},
                                'script': [{'do': 'temp', 'dur': 0.0, 'delay': 0.5}, {'do': 'ok', 'dur': 0.0}]})
        op1['handlers'].append({'id': f'up-{kind[:3]}{pad}', 'kind': 'update', 'resource': kind, 'opts': {},
                                'script': [{'do': 'ok', 'dur': 0.0}]})
    dep = {'kind': 'deployments', 'body': {'metadata': {'name': 'dep', 'annotations': {'user.example.com/keep': 'me'}},
                                           'spec': {'replicas': 1, 'strategy': {'type': 'RollingUpdate'}}}}
    rs = {'kind': 'replicasets', 'body': {'metadata': {'name': 'dep-5d4f', 'ownerReferences': [
        {'apiVersion': 'apps/v1', 'kind': 'Deployment', 'name': 'dep', 'uid': 'x', 'controller': True}]},
        'spec': {'replicas': 1}}}
    first, second = (dep, rs) if ch.bool() else (rs, dep)
    plan['objects'].append(first)
    plan['actions'].append({'t': round(ch.float(0.5, 3.0), 6), 'do': 'create', 'kind': second['kind'], 'body': second['body']})
    t = round(ch.float(5.0, 9.0), 6)
    plan['actions'].append({'t': t, 'do': 'copy-annotations', 'from_kind': 'deployments', 'from_name': 'dep',
                            'kind': 'replicasets', 'name': 'dep-5d4f'})
    plan['actions'].append({'t': round(t + ch.float(0.5, 3.0), 6), 'do': 'patch', 'kind': 'deployments', 'name': 'dep',
                            'patch': {'spec': {'replicas': 2}}})
    plan['actions'].append({'t': round(t + ch.float(3.5, 5.0), 6), 'do': 'copy-annotations', 'from_kind': 'deployments',
                            'from_name': 'dep', 'kind': 'replicasets', 'name': 'dep-5d4f'})
    plan['actions'].sort(key=lambda a: a['t'])
    plan['drs'] = True
    plan['faults_stop'] = max(plan['faults_stop'], t + 6.0)


def _own_annotation(st: common.StorageRef, key: str) -> bool:
    uses_annotations = st.progress in ('annotations', 'smart', 'multi') or st.diffbase in ('annotations', 'multi')
    return uses_annotations and key.startswith(st.prefix + '/')


def oracle(run: runner.Run, oc: Outcome) -> None:
    plan = run.plan
    rd = run.rdef('widgets')
    steps_all = changes.extract_steps(run)
    t_end = run.sim.now
    exercised = 0
    # 1. nothing the operators write is refused as invalid
    refused_ops: set[str] = set()
    for r in run.net.requests:
        rsp = r.response
        if rsp is None or getattr(rsp, '_sim_status', None) != 422 or r.method != 'PATCH':
            continue
        payload = getattr(rsp, '_sim_payload', None) or {}
        msg = str(payload.get('message', ''))
        if 'annotations' not in msg:
            continue
        refused_ops.add(common.op_of(r.session.actor))
        # which name was it?
        bad = msg.split("Invalid value: '", 1)[1].split("'", 1)[0] if "Invalid value: '" in msg else ''
        name = bad.split('/', 1)[1] if '/' in bad else bad
        edge = bool(name) and len(name) <= 63 and (not name[0].isalnum() or not name[-1].isalnum())
        oc.add('C16/invalid-name', 'separator-at-the-edge-of-a-short-id' if edge else 'refused-by-the-api',
               f"a write of {r.session.actor} to {r.attrs.get('name')} was refused at t={r.t_sent:.3f}: {msg[:300]}",
               actor=r.session.actor)
    refs = {o['id']: common.StorageRef(o) for o in plan['operators']}
    for opspec in plan['operators']:
        opid = opspec['id']
        op = run.op(opid)
        if op is None or opid in refused_ops:
            continue   # (what follows a refused write is its consequence, not a separate failure)
        st = refs[opid]
        others = [r for k, r in refs.items() if k != opid]
        allspecs: dict[str, dict[str, Any]] = {}
        for h in opspec['handlers']:
            allspecs[h['id']] = h
            for sub in h.get('subs', []):
                allspecs[f"{h['id']}/{sub['id']}"] = dict(sub, kind=h['kind'], opts=sub.get('opts', {}))
        def _short_twin(hid: str) -> bool:
            # another id of this operator that the key convention writes the same way, both too short to get a hash
            # (a sub-handler shares the fate of a parent that is such a twin)
            for cut in [len(hid)] + [i for i, ch_ in enumerate(hid) if ch_ == '/']:
                anc = hid[:cut]
                flat = anc.translate(_FLAT)
                if anc in allspecs and len(anc) <= 63 and any(x != anc and len(x) <= 63 and x.translate(_FLAT) == flat
                                                              for x in allspecs):
                    return True
            return False

        # 2. round trip: per cycle (delimited by the writes of the last-handled state) retry numbers count up and
        #    nothing runs after its final outcome
        for (o, uid), lst in steps_all.items():
            if o != opid:
                continue
            seqs: dict[str, list[runner.Call]] = {}
            reason_now = None
            tainted = [False]
            skip_until_close = [False]

            def _flush() -> None:
                nonlocal exercised
                for hid, cs in seqs.items():
                    h = allspecs.get(hid)
                    if h is None or h.get('subs') or tainted[0]:
                        continue
                    if (len(hid) > 63 or hid.startswith('fam')) and len(cs) > 1:
                        exercised += 1
                    retries = [c.retry for c in cs]
                    if retries != list(range(len(retries))):
                        oc.add('C16/round-trip', 'short-ids-equal-after-sanitising' if _short_twin(hid) else 'retry-numbers',
                               f"{opid}: handler {hid[:80]!r}(len {len(hid)}) of {uid}: retry numbers within one cycle are "
                               f"{retries}, expected 0,1,2,... (a record lost, or shared with another id)", uid=uid)
                    for a, b in zip(cs, cs[1:]):
                        if changes.final_outcome(a, h):
                            oc.add('C16/round-trip', 'short-ids-equal-after-sanitising' if _short_twin(hid) else 'invoked-after-final',
                                   f"{opid}: handler {hid[:80]!r}(len {len(hid)}) of {uid} was invoked again (#{b.n}) after "
                                   f"its final outcome {a.outcome!r} (#{a.n}) within one cycle", uid=uid)
                            break
                seqs.clear()
                tainted[0] = skip_until_close[0]

            for s in lst:
                if s.reason in ('create', 'update', 'delete') and s.reason != reason_now and seqs:
                    _flush()
                if s.reason in ('create', 'update', 'delete'):
                    reason_now = s.reason
                inc_ = next((x for x in run.ops.get(opid, []) if x.actor == s.actor), None)
                t_stop_ = inc_.t_stop_requested if inc_ is not None else None
                if s.how != 'returned' or (t_stop_ is not None and (s.t1 is None or s.t1 >= t_stop_)):
                    # a step cut by a stop loses its attempt; a step finishing while the process shuts down works on
                    # what was queued, with its stream already closed (no echo of its own writes): not judged
                    tainted[0] = True
                    if s.how != 'returned':
                        continue
                for c in s.calls:
                    if c.hkind in ('create', 'update', 'delete'):
                        seqs.setdefault(c.hid, []).append(c)
                if not s.writes and any(c.hkind in ('create', 'update', 'delete') for c in s.calls):
                    tainted[0] = True   # the record of this attempt never landed (the object vanished under the handler)
                closed = any(w.after is None or st.last_handled(w.after) != st.last_handled(w.before) or
                             (s.reason == 'delete' and not st.has_finalizer(w.after)) for w in s.writes)
                if s.reason == 'noop' and seqs:
                    # the change under handling was reverted in the middle of its cycle (and may come back): the
                    # records live on or are purged depending on what lands when; not judged until the next close
                    skip_until_close[0] = True
                if skip_until_close[0]:
                    tainted[0] = True
                if closed or s.reason in ('noop', 'gone', 'free'):
                    _flush()
                if closed:
                    skip_until_close[0] = False
            _flush()
        # 4. isolation: a write never changes what is not the writer's own
        for t in run.transitions:
            if common.op_of(t.actor) != opid or t.before is None or t.after is None or t.rkey != rd.key:
                continue
            ab = (t.before.get('metadata') or {}).get('annotations') or {}
            aa = (t.after.get('metadata') or {}).get('annotations') or {}
            for key in set(ab) | set(aa):
                if _own_annotation(st, key):
                    continue
                if ab.get(key) != aa.get(key):
                    oc.add('C16/isolation', 'foreign-annotation-changed',
                           f"{t.actor} changed the annotation {key!r} of {t.name} from {ab.get(key)!r} to {aa.get(key)!r} "
                           f"(its own prefix is {st.prefix!r})", uid=t.uid)
                    break
            sb, sa = t.before.get('status') or {}, t.after.get('status') or {}
            for other in others:
                if other.name != st.name and sb.get(other.name) != sa.get(other.name):
                    oc.add('C16/isolation', 'foreign-status-stanza-changed',
                           f"{t.actor} changed status.{other.name} of {t.name}", uid=t.uid)
        # 3. complete purge at quiescence
        if op.alive and not run.step_capped:
            late = [t for t in run.transitions if common.op_of(t.actor) == opid and t.t > t_end - FINAL_WINDOW and t.rkey == rd.key]
            if late:
                continue   # not settled (C03's subject)
            for obj in run.cluster.list(rd, None):
                if obj['metadata'].get('deletionTimestamp') is not None:
                    continue
                anns = obj['metadata'].get('annotations') or {}
                left = sorted(k for k in anns if _own_annotation(st, k)
                              and k.split('/', 1)[1] not in (st.diffbase_key, 'kopf-managed', 'touch-dummy'))
                prog = ((obj.get('status') or {}).get(st.name) or {}).get('progress') or {} \
                    if st.progress in ('status', 'smart', 'multi') else {}
                if left or prog:
                    # leftovers of the sub-handlers of two short ids that are written under one name (one of the two is
                    # taken for finished through the other's record, and its children are never looked at again)
                    twins = [x.translate(_FLAT) for x in allspecs if _short_twin(x)]
                    fam = bool(twins) and all(any(str(k).split('/', 1)[-1].startswith(tw[:30]) for tw in twins)
                                              for k in list(left) + list(prog))
                    oc.add('C16/purge', 'short-ids-equal-after-sanitising' if fam else 'records-left',
                           f"{opid}: at quiescence {obj['metadata']['name']} still carries {left[:4]} "
                           f"{'and status.' + st.name + '.progress=' + str(list(prog)[:3]) if prog else ''}", uid=obj['metadata']['uid'])
    # 5. the records of a ReplicaSet owned by a Deployment live under their own (marked) names, so that the
    #    annotations copied down from the Deployment are never taken for the ReplicaSet's own
    if plan.get('drs'):
        st1 = refs['op1']
        snaps = common.snapshots(run)
        for kind, marked in (('replicasets', True), ('deployments', False)):
            rdk = run.rdef(kind)
            for t in run.transitions:
                if t.rkey != rdk.key or common.op_of(t.actor) != 'op1' or t.after is None:
                    continue
                ab = ((t.before or {}).get('metadata') or {}).get('annotations') or {}
                aa = (t.after.get('metadata') or {}).get('annotations') or {}
                for key in aa:
                    if not _own_annotation(st1, key) or ab.get(key) == aa.get(key) or key.endswith('/kopf-managed'):
                        continue
                    # (names that had to be cut carry the mark inside their hash, not at their end: the mark is
                    # visible -- and judged -- on names that were kept whole)
                    whole = len(key.split('/', 1)[-1]) < 57
                    if whole and not any(len(h_['id']) > 40 for h_ in plan['operators'][0]['handlers']
                                         if h_.get('resource') in ('deployments', 'replicasets')) \
                            and key.endswith('-ofDRS') != marked:
                        oc.add('C16/isolation', 'owned-replicaset-key-' + ('not-marked' if marked else 'marked-on-a-deployment'),
                               f"op1 wrote {key!r} on the {kind[:-1]} {t.name}: records of a ReplicaSet owned by a Deployment "
                               f"must carry the -ofDRS mark, and only they", uid=t.uid)
                        break
        oc.probes['probe.drs-profile'] = 1
        # ... and the copy is not an update of the ReplicaSet
        for (o, uid), lst in changes.extract_steps(run, 'replicasets').items():
            closing = None
            for s in lst:
                view = snaps.get((uid, s.rv))
                if view is None:
                    continue
                if s.reason == 'update' and closing is not None and (s.calls or s.writes) and \
                        common.essence_eq(common.ref_essence(closing), common.ref_essence(view)):
                    oc.add('C16/isolation', 'replicaset-handled-for-the-deployments-records',
                           f"the ReplicaSet {uid}@{s.rv} was classified as an update although nothing essential differs from "
                           f"the state handled last (@{closing['metadata']['resourceVersion']})", uid=uid)
                if any(w.after is not None and w.actor.startswith('op1') for w in s.writes) and s.reason in ('create', 'update') \
                        and not any(c.outcome not in ('ok',) for c in s.calls):
                    closing = view
    oc.probes['probe.long-or-family-id-in-multi-step-cycle'] = exercised
    if exercised:
        oc.nontrivial = True


def evaluate(plan: dict[str, Any]) -> Outcome:
    return common.evaluate_closed_loop(plan, oracle)
