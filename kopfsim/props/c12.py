"""
C12 -- Infrastructure errors are retried, then contained per object, never fatal.

Harness A: the real api.request()/auth.authenticated()/Vault on a virtual loop with a generated
per-attempt fault sequence and back-off configuration; oracle on the attempt timestamps.
Harness B: full operator; escalated errors on one object's PATCHes, credentials revoked for all
in-flight requests; the other object and the operator itself must not suffer.
"""
from __future__ import annotations

import asyncio
from typing import Any, Optional

from kopfsim import cluster as cl
from kopfsim import core, net, runner
from kopfsim.props import changes, common
from kopfsim.search import Chooser, Outcome

ID = 'C12'
TITLE = 'Infrastructure errors are retried, then contained per object, never fatal'
LEVEL = 'exploration'
RULE = ('A: finite per-attempt fault sequences (5xx, 403, 429 with Retry-After header / retryAfterSeconds / none, '
        'connection drops, timeouts, non-retryable 4xx, then success or not) x back-off configurations (empty, scalar, '
        'finite list, re-iterable object) x enforce_retry_after; attempts counted and spaced on the fake server\'s '
        'request log. B: two objects, escalating API errors on one object\'s PATCHes (consecutive errors, then success), '
        '401 for every in-flight request at a drawn instant (k concurrent requests). Distinct = fault sequence + '
        'configuration resp. abstract trace signature; non-trivial = at least one retry, escalation, throttle or '
        're-authentication actually happened.')
COMPONENTS = common.COMPONENTS
ASSUMPTIONS = common.BASE_ASSUMPTIONS + [
    '"processing recovers once errors stop" is read as: the object\'s next event is handled normally '
    '(kopf does not re-process the failed event by itself)',
]
EPS = 0.005
RETRYABLE = (500, 502, 503, 504, 403, 429)


class ReIterable:
    """A re-iterable, non-Sized source of back-offs (e.g. a user-defined generator factory)."""

    def __init__(self, values: list[float]) -> None:
        self.values = values

    def __iter__(self) -> Any:
        return iter(self.values)


def gen_plan(ch: Chooser, tier: str) -> dict[str, Any]:
    if ch.bool(0.5):
        seq = []
        for _ in range(ch.int(0, 6)):
            kind = ch.weighted([('status', 6), ('drop-request', 2), ('drop-response', 1), ('timeout', 1)])
            f: dict[str, Any] = {'kind': kind}
            if kind == 'status':
                f['status'] = ch.choice([500, 502, 503, 504, 403, 429, 429, 429])
                if f['status'] == 429:
                    how = ch.choice(['header', 'details', 'none', 'header-float'])
                    if how == 'header':
                        f['headers'] = {'Retry-After': str(ch.choice([1, 2, 5]))}
                    elif how == 'header-float':
                        f['headers'] = {'Retry-After': ch.choice(['1.0', '3.5'])}
                    elif how == 'details':
                        f['retry_after_seconds'] = ch.choice([1, 3])
            seq.append(f)
        final = ch.weighted([('ok', 5), (400, 1), (404, 1), (409, 1), (422, 1), ('none', 2)])
        backoffs_kind = ch.choice(['empty', 'scalar', 'list', 'reiterable'])
        backoffs: Any = {'empty': [], 'scalar': ch.choice([0, 0.5, 2.0]),
                         'list': [ch.choice([0, 0.1, 0.5, 1.0, 4.0]) for _ in range(ch.int(1, 5))],
                         'reiterable': [ch.choice([0, 0.2, 1.0, 4.0]) for _ in range(ch.int(1, 4))]}[backoffs_kind]
        return {'harness': 'A', 'until': 200.0, 'seq': seq, 'final': final, 'backoffs_kind': backoffs_kind,
                'backoffs': backoffs, 'enforce_retry_after': ch.bool(0.4),
                'method': ch.choice(['get', 'patch']), 'request_timeout': ch.choice([None, 30.0])}
    return gen_plan_b(ch)


def evaluate_a(plan: dict[str, Any]) -> Outcome:
    import kopf
    import logging
    from kopf._cogs.clients import api, auth, errors
    from kopf._cogs.structs import credentials
    oc = Outcome()
    sim = core.Sim(seed=1)
    runner._setup_logging()
    core.begin_run(sim)
    core.install_seams()
    cluster = cl.FakeCluster(sim)
    rd = cl.ResourceDef('sim.dev', 'v1', 'widgets', 'Widget')
    cluster.ensure_namespace('default')
    cluster.install_crd(rd)
    cluster.create(rd, 'default', {'metadata': {'name': 'w'}, 'spec': {'a': 1}}, actor='user')
    rules = []
    seq = list(plan['seq'])
    if isinstance(plan['final'], int):
        seq.append({'kind': 'status', 'status': plan['final']})
    for i, f in enumerate(seq):
        act: dict[str, Any] = {'kind': f['kind'] if f['kind'] != 'timeout' else 'drop-request'}
        if f['kind'] == 'status':
            act.update(status=f['status'], headers=f.get('headers', {}))
            if 'retry_after_seconds' in f:
                act['retry_after_seconds'] = f['retry_after_seconds']
        if f['kind'] == 'timeout':
            act['exc'] = 'TimeoutError'
        rules.append({'match': {'kind': 'widgets'}, 'nth': i + 1, 'action': act})
    if plan['final'] == 'none':
        rules.append({'match': {'kind': 'widgets'}, 'action': {'kind': 'status', 'status': 503}})
    network = net.Network(sim, cluster, rules=rules, lat_lo=0.001, lat_hi=0.003)
    loop = sim.new_loop('direct')
    settings = kopf.OperatorSettings()
    bk = plan['backoffs']
    settings.networking.error_backoffs = ReIterable(list(bk)) if plan['backoffs_kind'] == 'reiterable' else bk
    settings.networking.enforce_retry_after = plan['enforce_retry_after']
    settings.networking.request_timeout = plan['request_timeout']
    blist: list[float] = [bk] if isinstance(bk, (int, float)) else list(bk)
    logger = logging.getLogger('kopf.sim.c12')
    out: dict[str, Any] = {}

    async def main() -> None:
        vault = credentials.Vault()
        session = net.FakeSession(network, 'op1#1', loop)
        await vault.populate({'sim': kopf.AiohttpSession(server='http://sim', aiohttp_session=session)})  # type: ignore[arg-type]
        auth.vault_var.set(vault)
        url = '/apis/sim.dev/v1/namespaces/default/widgets/w'
        try:
            if plan['method'] == 'get':
                out['result'] = await api.get(url, settings=settings, logger=logger)
            else:
                out['result'] = await api.patch(url, payload={'spec': {'a': 2}}, settings=settings, logger=logger,
                                                headers={'Content-Type': 'application/merge-patch+json'})
        except BaseException as e:
            out['error'] = e

    task = loop.create_task(main())
    try:
        sim.run(until=float(plan['until']), max_steps=50000)
        attempts = [r for r in network.requests]
        times = [r.t_sent for r in attempts]
        n = len(attempts)
        done = task.done()
        # classify what each attempt met
        met = []
        for i in range(n):
            met.append(seq[i] if i < len(seq) else ({'kind': 'status', 'status': 503} if plan['final'] == 'none' else {'kind': 'ok'}))
        label = f"backoffs={plan['backoffs_kind']}:{blist} enforce={plan['enforce_retry_after']} met={[m.get('status', m['kind']) for m in met]}"
        if not done:
            oc.add('C12/hung', 'request-never-returned', f"api.{plan['method']} did not return within {plan['until']}s: {label}")
        else:
            # attempts bounded by the back-off list
            if n > len(blist) + 1:
                oc.add('C12/too-many-attempts', 'count', f"{n} attempts with {len(blist)} back-offs: {label}")
            for i in range(n - 1):
                m = met[i]
                retryable = m['kind'] in ('drop-request', 'drop-response', 'timeout') or \
                    (m['kind'] == 'status' and m['status'] in RETRYABLE)
                if not retryable:
                    oc.add('C12/retried-non-retryable', str(m.get('status', m['kind'])),
                           f"attempt #{i + 1} met {m} and was retried: {label}")
                    continue
                gap = times[i + 1] - times[i]
                # the failure is known to the client only when the response/failure arrives: measure from there
                ra: Optional[float] = None
                if m['kind'] == 'status' and m['status'] == 429:
                    if m.get('headers', {}).get('Retry-After'):
                        ra = float(int(float(m['headers']['Retry-After'])))
                    elif m.get('retry_after_seconds'):
                        ra = float(m['retry_after_seconds'])
                b = blist[i] if i < len(blist) else None
                if ra is not None and gap < ra - EPS:
                    oc.add('C12/retry-after-ignored', 'too-soon',
                           f"attempt #{i + 2} came {gap:.3f}s after a 429 that asked for {ra}s: {label}")
                if b is not None and gap < b - EPS and not (ra is not None and plan['enforce_retry_after']):
                    oc.add('C12/backoff-ignored', 'too-soon',
                           f"attempt #{i + 2} came {gap:.3f}s after #{i + 1}, configured back-off {b}s: {label}")
            last = met[n - 1] if n else None
            if 'error' in out and last is not None:
                last_retryable = last['kind'] in ('drop-request', 'drop-response', 'timeout') or \
                    (last['kind'] == 'status' and last['status'] in RETRYABLE)
                if last['kind'] == 'ok':
                    oc.add('C12/failed-despite-success', 'raised', f"raised {out['error']!r} although the last attempt succeeded: {label}")
                elif last_retryable and n < len(blist) + 1:
                    oc.add('C12/gave-up-early', 'count',
                           f"escalated {out['error']!r} after {n} attempts with {len(blist)} back-offs configured: {label}")
            if 'error' not in out and last is not None and last['kind'] != 'ok':
                oc.add('C12/error-swallowed', 'returned', f"returned {out.get('result')!r} although the last attempt failed: {label}")
        oc.digest = core.stable_hash([round(t, 6) for t in times], repr(out.get('error')), n).__format__('x')
        oc.signature = core.stable_hash([m.get('status', m['kind']) for m in met], plan['backoffs_kind'], len(blist),
                                        plan['enforce_retry_after']).__format__('x')
        oc.nontrivial = n > 1 or 'error' in out
        oc.counters = {'net.requests': n}
        for m in met[:n]:
            k = f"fault.{m.get('status', m['kind'])}"
            oc.counters[k] = oc.counters.get(k, 0) + 1
        oc.sim_seconds = sim.now
        oc.summary = {'harness': 'A', 'plan': {k: v for k, v in plan.items() if k not in ('seed',)}, 'attempt_times': [round(t, 3) for t in times]}
    finally:
        try:
            for t in asyncio.all_tasks(loop):
                t.cancel()
            for _ in range(20):
                loop.step()
            loop._ready.clear()
            loop._scheduled.clear()
            loop.close()
        except BaseException:
            pass
        core.end_run()
    return oc


# --------------------------------------------------------------------------------------
def gen_plan_b(ch: Chooser) -> dict[str, Any]:
    settings = common.base_settings(ch)
    delays = ch.choice([[0.5, 1.0, 2.0], [1.0], [0.3, 0.6, 1.2, 2.4], []])
    settings['error_delays'] = delays
    settings['error_backoffs'] = ch.choice([[], [0.1], [0.1, 0.2]])
    handlers = [
        {'id': 'u1', 'kind': 'update', 'opts': {}, 'script': [{'do': 'ok', 'dur': 0.0, 'result': {'n': 1}}]},
        {'id': 'ev', 'kind': 'event'},
    ]
    actions: list[dict[str, Any]] = [{'t': 0.0, 'do': 'start', 'op': 'op1'}]
    rules: list[dict[str, Any]] = []
    n_err = ch.int(1, 5)
    code = ch.choice([400, 409, 422, 500, 403])
    # consecutive PATCHes of object A fail (all retries of each), then succeed
    per = len(settings['error_backoffs']) + 1 if code in (500, 403) else 1
    first = ch.int(2, 4)
    nth = list(range(first, first + n_err * per))
    if ch.bool(0.6):
        # a second burst after some successes: the delays must start from the beginning again
        second = first + n_err * per + ch.int(1, 3)
        nth += list(range(second, second + ch.int(1, 3) * per))
    if ch.bool(0.3):
        # the failing requests are the JSON-patches of the finalizer (a delete handler makes the framework add it):
        # the same escalation rules hold for them, except that 422 means "postponed", not an error
        handlers.append({'id': 'd1', 'kind': 'delete', 'opts': {}, 'script': [{'do': 'ok', 'dur': 0.0}]})
        code = ch.choice([409, 429, 500, 403])
        per = len(settings['error_backoffs']) + 1 if code in (500, 403, 429) else 1
        nth = list(range(1, 1 + n_err * per))
        rules.append({'match': {'kind': 'widgets', 'name': 'a', 'method': 'PATCH', 'ctype': 'json'},
                      'nth': nth, 'action': {'kind': 'status', 'status': code}})
    else:
        rules.append({'match': {'kind': 'widgets', 'name': 'a', 'method': 'PATCH', 'ctype': 'merge'},
                      'nth': nth, 'action': {'kind': 'status', 'status': code}})
    t = 3.0
    counter = 0
    for _ in range(ch.int(4, 14)):
        counter += 1
        t += ch.choice([0.2, 1.0, 2.5, 6.0])
        actions.append({'t': round(t, 6), 'do': 'patch', 'name': 'a', 'patch': {'spec': {'a': counter}}})
        if ch.bool(0.7):
            actions.append({'t': round(t + ch.choice([0.0, 0.01, 0.5]), 6), 'do': 'patch', 'name': 'b',
                            'patch': {'spec': {'a': counter}}})
    reuse = False
    alternates = False
    if ch.bool(0.5):
        t_rev = ch.float(4.0, t)
        actions.append({'t': t_rev, 'do': 'revoke', 'op': 'op1'})
        reuse = ch.bool(0.25)
        if not reuse and ch.bool(0.3):
            # two identities offered in turn, both revoked one after the other: the third login offers the first again
            alternates = True
            actions.append({'t': round(t_rev + ch.choice([1.0, 3.0, 8.0]), 6), 'do': 'revoke', 'op': 'op1'})
            for k in range(4):
                actions.append({'t': round(t_rev + 0.5 + 3.0 * k, 6), 'do': 'patch', 'name': 'b', 'patch': {'spec': {'z': k}}})
    actions.sort(key=lambda a: a['t'])
    return {
        'harness': 'B', 'until': t + 60.0, 'n_err': n_err, 'code': code,
        'kinds': [{'plural': 'widgets'}],
        'operators': [{'id': 'op1', 'standalone': True, 'settings': settings, 'handlers': handlers,
                       'login_reuses_revoked': reuse, 'login_alternates': alternates}],
        'objects': [{'kind': 'widgets', 'body': {'metadata': {'name': n}, 'spec': {'a': 0}}} for n in ('a', 'b')],
        'actions': actions,
        'net': {'latency_seed': ch.int(0, 1 << 30), 'lat_lo': 0.001, 'lat_hi': 0.01,
                'watch_lat_lo': 0.001, 'watch_lat_hi': 0.01, 'rules': rules},
    }


def oracle_b(run: runner.Run, oc: Outcome) -> None:
    opid = 'op1'
    op = run.op(opid)
    spec = common.spec_of(run, opid)
    delays = list(spec['settings'].get('error_delays', []))
    if op is None:
        return
    reuse = bool(spec.get('login_reuses_revoked'))
    if reuse:
        # The login handler keeps returning the invalidated credentials: they must never be used again.
        t_rev = min([e[1] for e in run.sim.trace if e[2] == 'act' and e[3] == 'revoke'], default=None)
        if t_rev is not None:
            relogin = [t for (t, actor, tok) in run.logins if t > t_rev]
            if relogin:
                late = [r for r in run.net.requests if r.t_sent > relogin[0] + EPS and r.session.revoked]
                # A retry that was sleeping in its back-off when the session got closed runs into the closed
                # session once (nothing goes on the wire; kopf re-authenticates): tolerated. A storm is not.
                attempts = [a for a in run.net.closed_session_attempts if a[0] > relogin[0] + EPS]
                if len(attempts) > 5 or len(relogin) > 10:
                    late += attempts
                if late:
                    oc.add('C12/invalid-credentials-reused', 'same-credentials-readded',
                           f"{len(late)} request(s) were started on the invalidated credentials after the login handler "
                           f"returned them again at t={relogin[0]:.4f}")
                oc.nontrivial = True
        return
    if spec.get('login_alternates'):
        # Credentials invalidated earlier (not only the latest ones) must never be used again when offered anew.
        late = []
        for r in run.net.requests:
            t_inv = getattr(r.session, 'revoked_at', None)
            if t_inv is None:
                continue
            noticed = [e[1] for e in run.sim.trace if e[2] == 'rsp' and e[4] == 401 and e[1] >= t_inv]
            relogin = [t for (t, actor, tok) in run.logins if noticed and t > noticed[0]]
            if relogin and r.t_sent > relogin[0] + EPS:
                late.append(r)
        storm = [a for a in run.net.closed_session_attempts]
        if late or len(storm) > 5 or len(run.logins) > 10:
            oc.add('C12/invalid-credentials-reused', 'earlier-credentials-readded',
                   f"{len(late)} request(s) were started on credentials invalidated earlier, {len(storm)} attempts were made on "
                   f"their closed sessions, {len(run.logins)} logins: {[(round(t, 3), tok) for (t, a, tok) in run.logins][:8]}")
        oc.nontrivial = True
        return
    if op.exit is not None:
        oc.add('C12/operator-stopped', op.exit[1], f"the operator ended ({op.exit}) because of API errors on one object")
        return
    steps = changes.extract_steps(run)
    by_rid = {r.rid: r for r in run.net.requests}
    throttles = 0
    for (o, uid), lst in steps.items():
        name = next((t.name for t in run.transitions if t.uid == uid), None)
        # escalations in this object's processing: a PATCH of ours answered >= 400 in a step that then has no success
        consecutive = 0
        blocked_until = 0.0
        for s in lst:
            if s.t1 is None:
                continue
            reqs = [e for e in run.sim.trace if e[2] == 'rsp' and s.seq0 <= e[0] <= (s.seq1 or 0)
                    and by_rid.get(e[3]) is not None and by_rid[e[3]].attrs.get('name') == name
                    and by_rid[e[3]].method == 'PATCH' and by_rid[e[3]].session.actor == s.actor]
            act_times = [c.t0 for c in s.calls] + [
                e[1] for e in run.sim.trace if e[2] == 'req' and s.seq0 <= e[0] <= (s.seq1 or 0)
                and by_rid.get(e[3]) is not None and by_rid[e[3]].attrs.get('name') == name
                and by_rid[e[3]].method == 'PATCH']
            acted = bool(act_times)
            if acted and min(act_times) < blocked_until - EPS:
                oc.add('C12/throttle-ignored', 'too-soon',
                       f"object {name}: processing acted at t={min(act_times):.4f} although it is throttled until "
                       f"t={blocked_until:.4f} after {consecutive} consecutive error(s) (error_delays={delays})", name=name)
            # (422 to a JSON-patch is a lost race on the resource version: the transformation is postponed, no error)
            failed = bool(reqs) and reqs[-1][4] >= 400 and reqs[-1][4] != 404 and \
                not (reqs[-1][4] == 422 and by_rid[reqs[-1][3]].attrs.get('ctype') == 'json')
            if failed:
                delay = delays[consecutive] if consecutive < len(delays) else (delays[-1] if delays else None)
                # the pause is not longer than configured either (when nothing interrupts the step)
                interrupted = any(e[2] == 'yield' and e[7] == uid and reqs[-1][1] <= e[1] <= s.t1 for e in run.sim.trace)
                if delay is not None and not interrupted and s.how == 'returned' and s.t1 - reqs[-1][1] > delay + 0.05:
                    oc.add('C12/throttle-too-long', 'not-reset',
                           f"object {name}: error #{consecutive + 1} in a row paused its processing for "
                           f"{s.t1 - reqs[-1][1]:.3f}s, configured {delay}s (error_delays={delays})", name=name)
                consecutive += 1
                throttles += 1
                t_fail = reqs[-1][1]
                blocked_until = t_fail + delay if delay is not None else 0.0
            elif acted and reqs and reqs[-1][4] < 400:
                consecutive = 0
                blocked_until = 0.0
        # recovery: the last external edit of this object is eventually handled
        last_edit = max((t for t in run.transitions if t.uid == uid and t.actor == 'user' and t.verb == 'patch'),
                        key=lambda t: t.t, default=None)
        if last_edit is not None:
            want = (last_edit.after or {}).get('spec', {}).get('a')
            handled = [c for c in run.calls if c.uid == uid and c.hid == 'u1' and c.outcome == 'ok'
                       and (c.body or {}).get('spec', {}).get('a') == want]
            errors_after = any(e[2] == 'fault' and e[1] >= last_edit.t for e in run.sim.trace)
            # (an object whose very first handling was held up by the errors takes its last edit in as its creation)
            final_ = next((x for x in run.cluster.list(run.rdef('widgets'), None) if x['metadata']['uid'] == uid), None)
            absorbed = final_ is not None and ((common.StorageRef(spec).last_handled(final_) or {}).get('spec') or {}).get('a') == want \
                and not any(c.uid == uid and c.hid == 'u1' for c in run.calls)
            if 'u1' in {h['id'] for h in spec['handlers']} and not handled and not absorbed and not errors_after \
                    and run.sim.now - last_edit.t > 30.0:
                oc.add('C12/no-recovery', 'last-edit-unhandled',
                       f"object {name}: its last edit (spec.a={want}, t={last_edit.t:.2f}) came after the errors had stopped "
                       f"but was never handled", name=name)
    # the other object is not delayed: its raw-event handler starts right when its event is processed,
    # and its processing starts right when delivered (no waiting for the throttled object)
    yields: dict[str, list[float]] = {}
    for e in run.sim.trace:
        if e[2] == 'yield' and e[4] == 'widgets' and e[7] is not None and e[9] == 'b':
            yields.setdefault(e[7], []).append(e[1])
    for uid, ys in yields.items():
        starts = [s.t0 for s in steps.get((opid, uid), [])]
        ends = [s.t1 for s in steps.get((opid, uid), [])]
        for i, (y, st) in enumerate(zip(ys, starts)):
            prev_end = ends[i - 1] if i > 0 and ends[i - 1] is not None else 0.0
            if st - max(y, prev_end) > 0.05:
                oc.add('C12/other-object-delayed', 'b-waited',
                       f"object b: event delivered at t={y:.4f} was processed only at t={st:.4f} while object a was failing")
                break
    # re-authentication: one login per revocation; no new request on the old token after the new one is issued
    revokes = [e[1] for e in run.sim.trace if e[2] == 'act' and e[3] == 'revoke']
    logins = [(t, tok) for (t, actor, tok) in run.logins]
    # a revocation is noticed only by a request that is answered with 401 (an established stream is not)
    noticed = [t for t in revokes if any(e[2] == 'rsp' and e[4] == 401 and e[1] >= t for e in run.sim.trace)]
    if revokes:
        if len(logins) > 1 + len(revokes) or len(logins) < 1 + len(noticed):
            oc.add('C12/reauth-count', f'{len(logins) - 1}-logins-for-{len(revokes)}-revocations',
                   f"{len(revokes)} credential revocation(s) led to {len(logins) - 1} re-authentications: {logins}")
        if len(logins) >= 2:
            t_new, tok_new = logins[1]
            late = [r for r in run.net.requests if r.t_sent > t_new + EPS and r.attrs.get('token') == logins[0][1]]
            if late:
                oc.add('C12/invalid-credentials-reused', 'old-token',
                       f"{len(late)} request(s) were started on the invalidated session after the re-authentication at "
                       f"t={t_new:.4f}: first {late[0].method} {late[0].path} at t={late[0].t_sent:.4f}")
            # everything blocked proceeds: the watch of widgets is re-established on the new session
            rewatch = [r for r in run.net.requests if r.t_sent > t_new and r.attrs.get('watch') and r.attrs.get('kind') == 'widgets'
                       and r.attrs.get('token') == tok_new]
            if not rewatch and run.sim.now - t_new > 20.0:
                oc.add('C12/reauth-stuck', 'no-watch-after-login',
                       f"after the re-authentication at t={t_new:.2f} the widgets are not watched again")
    oc.probes['probe.throttled'] = throttles
    oc.probes['probe.reauth'] = max(0, len(logins) - 1)
    if throttles or len(logins) > 1:
        oc.nontrivial = True


def evaluate(plan: dict[str, Any]) -> Outcome:
    if plan.get('harness') == 'A':
        return evaluate_a(plan)
    return common.evaluate_closed_loop(plan, oracle_b)
