"""
C17 -- In-memory indices mirror the cluster; handling waits for the initial index.
"""
from __future__ import annotations

from typing import Any, Optional

from kopfsim import runner
from kopfsim.props import changes, common, spawning
from kopfsim.search import Chooser, Outcome

ID = 'C17'
TITLE = 'In-memory indices mirror the cluster; handling waits for the initial index'
LEVEL = 'exploration'
RULE = ('2 indexed kinds + 1 plain kind; index functions scripted per (object, call#): dict with colliding / re-keyed keys, '
        'scalar, None, TemporaryError with delay, PermanentError, arbitrary error (ignored by default, or per errors=); '
        'label filters toggled by edits, deletions, interleaved and delayed initial listings of the kinds. A probe '
        '@kopf.on.event handler on every kind snapshots all indices in every processing step; they must equal a '
        'dictionary reference model fed with the same scripted outcomes, and index functions must be called exactly when '
        'the documented rules say. Gate: no change handler, daemon or timer starts before every indexed kind was listed '
        'and every listed object indexed. Distinct = abstract trace signature; non-trivial = a key collision, a removal '
        '(deletion / mismatch / error) or a delayed listing occurred.')
COMPONENTS = common.COMPONENTS
ASSUMPTIONS = common.BASE_ASSUMPTIONS + [
    'index functions take zero time here, so indexing of one event is atomic and every snapshot is comparable',
]
KINDS = ('widgets', 'gadgets')
LABEL = {'idx': 'yes'}


def _gen_index_script(ch: Chooser, names: list[str]) -> dict[str, list[dict[str, Any]]]:
    scripts = {}
    for name in names:
        steps = []
        for _ in range(ch.int(1, 6)):
            kind = ch.weighted([('dict', 6), ('scalar', 2), ('none', 2), ('temp', 1), ('perm', 0.5), ('exc', 1)])
            if kind == 'dict':
                keys = ch.sample(['k1', 'k2', 'k3'], ch.int(1, 2))
                steps.append({'do': 'ok', 'result': {k: f'{name}-{ch.int(0, 3)}' for k in keys}})
            elif kind == 'scalar':
                steps.append({'do': 'ok', 'result': f'{name}-s{ch.int(0, 3)}'})
            elif kind == 'none':
                steps.append({'do': 'ok'})
            elif kind == 'temp':
                steps.append({'do': 'temp', 'delay': ch.choice([0.5, 2.0])})
            else:
                steps.append({'do': kind})
        steps.append({'do': 'ok', 'result': {ch.choice(['k1', 'k2']): f'{name}-last'}})
        scripts[name] = steps
    return scripts


def gen_plan(ch: Chooser, tier: str) -> dict[str, Any]:
    settings = common.base_settings(ch)
    if ch.bool(0.1):
        settings['worker_limit'] = ch.choice([1, 2])   # a bounded pool of per-object workers (per watcher)
    names = {k: [f'{k[0]}{i}' for i in range(ch.int(1, 3))] for k in KINDS}
    names['gizmos'] = ['z0']
    handlers: list[dict[str, Any]] = []
    index_ids: list[str] = []
    for kind in KINDS:
        for i in range(ch.int(1, 2)):
            iid = f'ix_{kind[0]}{i + 1}'
            opts: dict[str, Any] = {}
            if ch.bool(0.4):
                opts['labels'] = dict(LABEL)
            if ch.bool(0.3):
                opts['errors'] = ch.choice(['temporary', 'permanent', 'ignored'])
            if ch.bool(0.3):
                opts['backoff'] = ch.choice([0.5, 2.0])
            handlers.append({'id': iid, 'kind': 'index', 'resource': kind, 'opts': opts,
                             'scripts': _gen_index_script(ch, names[kind]), 'script': [{'do': 'ok'}]})
            index_ids.append(iid)
    for kind in KINDS + ('gizmos',):
        handlers.append({'id': f'probe_{kind}', 'kind': 'event', 'resource': kind, 'snapshot': index_ids})
    # something that must wait for the indices
    handlers.append({'id': 'c1', 'kind': 'create', 'resource': 'gizmos', 'opts': {}, 'script': [{'do': 'ok'}]})
    handlers.append({'id': 'cw', 'kind': 'create', 'resource': 'widgets', 'opts': {}, 'script': [{'do': 'ok'}]})
    if ch.bool(0.5):
        handlers.append({'id': 'tm', 'kind': 'timer', 'resource': 'gizmos', 'opts': {'interval': 1.0}, 'script': [{'do': 'ok'}]})
    objects = []
    actions: list[dict[str, Any]] = [{'t': ch.choice([0.0, 0.0, 1.0]), 'do': 'start', 'op': 'op1'}]
    horizon = ch.choice([10.0, 20.0])
    for kind, ns_ in names.items():
        for n in ns_:
            body: dict[str, Any] = {'metadata': {'name': n}, 'spec': {'a': 0}}
            if ch.bool(0.7):
                body['metadata']['labels'] = dict(LABEL)
            if ch.bool(0.75):
                objects.append({'kind': kind, 'body': body})
            else:
                actions.append({'t': ch.float(0.0, horizon / 2), 'do': 'create', 'kind': kind, 'body': body})
    counter = 0
    for _ in range(ch.int(3, 14)):
        counter += 1
        kind = ch.choice(list(KINDS))
        n = ch.choice(names[kind])
        what = ch.weighted([('spec', 5), ('on', 2), ('off', 2), ('delete', 1)])
        t = ch.float(0.5, horizon)
        if what == 'spec':
            actions.append({'t': t, 'do': 'patch', 'kind': kind, 'name': n, 'patch': {'spec': {'a': counter}}})
        elif what == 'on':
            actions.append({'t': t, 'do': 'patch', 'kind': kind, 'name': n, 'patch': {'metadata': {'labels': {'idx': 'yes'}}}})
        elif what == 'off':
            actions.append({'t': t, 'do': 'patch', 'kind': kind, 'name': n, 'patch': {'metadata': {'labels': {'idx': 'no'}}}})
        else:
            actions.append({'t': t, 'do': 'delete', 'kind': kind, 'name': n})
    rules = []
    if ch.bool(0.6):
        # one kind's initial listing is slow: the others must wait for it
        slow = ch.choice(list(KINDS))
        rules.append({'match': {'method': 'GET', 'kind': slow, 'watch': False, 'name': None}, 'nth': 1,
                      'action': {'kind': 'delay', 'delay_response': ch.choice([0.5, 2.0, 5.0])}})
    actions.sort(key=lambda a: a['t'])
    opspec: dict[str, Any] = {'id': 'op1', 'standalone': True, 'settings': settings, 'handlers': handlers}
    extra: dict[str, Any] = {}
    if ch.bool(0.4):
        # several served namespaces: one listing per (kind, namespace), each of which the gate has to wait for
        served = ['ns-a', 'ns-b']
        extra['namespaces'] = ['default'] + served
        opspec['namespaces'] = served
        home = {(kind, n): ch.choice(served) for kind, ns_ in names.items() for n in ns_}
        for o in objects:
            o['ns'] = home[(o['kind'], o['body']['metadata']['name'])]
        for a in actions:
            if a['do'] in ('create', 'patch', 'delete'):
                a['ns'] = home[(a['kind'], a['body']['metadata']['name'] if a['do'] == 'create' else a['name'])]
        if rules and ch.bool(0.7):
            rules[0]['nth'] = ch.choice([1, 2])
    return {
        'until': horizon + 30.0,
        'kinds': [{'plural': 'widgets'}, {'plural': 'gadgets'}, {'plural': 'gizmos'}],
        'operators': [opspec], **extra,
        'objects': objects, 'actions': actions,
        'tie_random': ch.bool(0.3),
        'net': {'latency_seed': ch.int(0, 1 << 30), 'lat_lo': 0.001, 'lat_hi': ch.choice([0.005, 0.05, 0.3]),
                'watch_lat_lo': 0.001, 'watch_lat_hi': ch.choice([0.005, 0.05]), 'rules': rules},
    }


def oracle(run: runner.Run, oc: Outcome) -> None:
    opid = 'op1'
    op = run.op(opid)
    hspecs = common.handler_specs(run, opid)
    snaps = common.snapshots(run)
    index_specs = {hid: h for hid, h in hspecs.items() if h['kind'] == 'index'}
    default_backoff = float(common.spec_of(run, opid)['settings'].get('default_backoff', 60.0))
    # all processing steps of all kinds, in global order
    steps: list[changes.Step] = []
    kind_of: dict[int, str] = {}
    for kind in ('widgets', 'gadgets', 'gizmos'):
        for lst in changes.extract_steps(run, kind).values():
            for s in lst:
                steps.append(s)
                kind_of[id(s)] = kind
    steps.sort(key=lambda s: s.seq0)
    # reference model
    model: dict[str, dict[Any, dict[str, Any]]] = {iid: {} for iid in index_specs}   # index -> key -> {uid: value}
    sleeping_until: dict[tuple[str, str], float] = {}
    dead: set[tuple[str, str]] = set()
    removals = collisions = 0

    def discard(iid: str, uid: str) -> None:
        nonlocal removals
        for key in list(model[iid]):
            if uid in model[iid][key]:
                del model[iid][key][uid]
                removals += 1
                if not model[iid][key]:
                    del model[iid][key]

    def snapshot_of_model() -> dict[str, dict[str, list[Any]]]:
        return {iid: {repr(k): sorted(vals.values(), key=repr) for k, vals in idx.items()} for iid, idx in model.items()}

    for s in steps:
        kind = kind_of[id(s)]
        view = snaps.get((s.uid, s.rv))
        name = next((c.name for c in s.calls if c.name), None) or ((view or {}).get('metadata') or {}).get('name')
        calls = {c.hid: c for c in s.calls if c.hkind == 'index'}
        if s.etype == 'DELETED':
            for iid in model:
                discard(iid, s.uid)
        elif s.how is not None or s.calls:
            for iid, h in index_specs.items():
                if h.get('resource', 'widgets') != kind:
                    continue
                key = (iid, s.uid)
                expected = view is not None and spawning.matches(h, view) and key not in dead \
                    and s.t0 >= sleeping_until.get(key, 0.0) - 1e-9
                c = calls.get(iid)
                if view is not None and expected != (c is not None):
                    oc.add('C17/index-call', 'unexpected-call' if c is not None else 'missing-call',
                           f"index {iid} for {name}@{s.rv}: {'called' if c is not None else 'not called'} at t={s.t0:.4f} "
                           f"but the rules say {'call' if expected else 'no call'} (matches={spawning.matches(h, view)}, "
                           f"dead={key in dead}, sleeping_until={sleeping_until.get(key)})", uid=s.uid, hid=iid)
                if c is None:
                    discard(iid, s.uid)
                    continue
                mode = h.get('opts', {}).get('errors') or 'ignored'
                if c.outcome == 'ok':
                    step = runner._script_step(h.get('scripts', {}).get(c.name, h.get('script', [])), c.n)
                    result = step.get('result')
                    if result is not None:
                        discard(iid, s.uid)
                        items = result if isinstance(result, dict) else {None: result}
                        for k, v in items.items():
                            if k in model[iid] and model[iid][k]:
                                collisions += 1
                            model[iid].setdefault(k, {})[s.uid] = v
                    sleeping_until.pop(key, None)
                elif c.outcome == 'exc' and mode == 'ignored':
                    sleeping_until.pop(key, None)   # counts as done: values are kept
                elif c.outcome == 'temp' or (c.outcome == 'exc' and mode == 'temporary'):
                    discard(iid, s.uid)
                    step = runner._script_step(h.get('scripts', {}).get(c.name, h.get('script', [])), c.n)
                    delay = float(step.get('delay', 1.0)) if c.outcome == 'temp' else float(h.get('opts', {}).get('backoff', default_backoff))
                    sleeping_until[key] = (c.t1 or s.t0) + delay
                else:  # permanent
                    discard(iid, s.uid)
                    dead.add(key)
        # compare with what the probe saw in this step
        for c in s.calls:
            if c.hkind == 'event' and c.extra and 'indices' in c.extra:
                later = [x for x in steps if s.seq0 < x.seq0 < c.seq0]
                if later:
                    continue  # other objects were indexed between this step's indexing and its probe
                want = snapshot_of_model()
                oc.probes['probe.snapshots-compared'] = oc.probes.get('probe.snapshots-compared', 0) + 1
                got = c.extra['indices']
                if got != want:
                    diff = {iid: (got.get(iid), want.get(iid)) for iid in want if got.get(iid) != want.get(iid)}
                    oc.add('C17/index-content', 'mismatch',
                           f"after processing {name}@{s.rv} ({s.etype}) at t={s.t0:.4f} the indices differ from the rules: "
                           f"(seen, expected) = {diff}", uid=s.uid)
    # the gate
    by_inc: dict[int, float] = {}
    for c in run.calls:
        if c.hkind in common.CHANGE_KINDS + ('daemon', 'timer'):
            by_inc[c.inc] = min(by_inc.get(c.inc, float('inf')), c.seq0)
    indexed_kinds = {h.get('resource', 'widgets') for h in index_specs.values()}
    for inc, first_seq in by_inc.items():
        actor = f'{opid}#{inc}'
        served_ns = common.spec_of(run, opid).get('namespaces') or [None]
        for kind in indexed_kinds:
            all_listed = [e for e in run.sim.trace if e[2] == 'yield' and e[3] == actor and e[4] == kind and e[6] == 'LISTED']
            firsts = [next((e for e in all_listed if e[5] == ns_), None) for ns_ in served_ns]   # one listing per namespace
            if any(e is None or e[0] > first_seq for e in firsts):
                oc.add('C17/gate', 'handler-before-listing',
                       f"a change handler/daemon/timer ran in {actor} (seq {first_seq}) before the initial listing of the "
                       f"indexed kind {kind} was over"
                       + (f" in all of {served_ns}" if served_ns != [None] else ''), kind=kind)
                continue
            listed = [max([e for e in firsts if e is not None], key=lambda e: e[0])]
            for e in run.sim.trace:
                if e[2] == 'yield' and e[3] == actor and e[4] == kind and e[6] is None and e[0] < listed[0][0]:
                    uid = e[7]
                    procs = [x for x in run.sim.trace if x[2] == 'proc+' and x[3] == actor and x[5] == uid]
                    if not procs or procs[0][0] > first_seq:
                        oc.add('C17/gate', 'handler-before-indexing',
                               f"a change handler/daemon/timer ran in {actor} before the listed {kind} object {e[9]} "
                               f"had been indexed", kind=kind)
                        break
    # the gate opens: an operator whose listings are over does get to its handlers (nothing stays parked at the gate)
    limit = common.spec_of(run, opid)['settings'].get('worker_limit')
    t_end_ = run.sim.now
    if op is not None and op.alive and not run.step_capped:
        parked = {}
        for e in run.sim.trace:
            if e[2] == 'proc+' and e[3] == op.actor:
                parked[(e[4], e[5])] = e[1]
            elif e[2] == 'proc-' and e[3] == op.actor:
                parked.pop((e[4], e[5]), None)
        old_ = {k: t for k, t in parked.items() if t_end_ - t > 20.0}
        if old_:
            oc.add('C17/gate', 'never-opens-with-a-worker-limit' if limit is not None else 'never-opens',
                   f"{len(old_)} object(s) entered processing and never left it (since t={min(old_.values()):.2f}, now "
                   f"t={t_end_:.1f}; worker_limit={limit}): the operator is parked at the index gate", kinds=sorted({k[0] for k in old_}))
    oc.probes['probe.index-removals'] = removals
    oc.probes['probe.key-collisions'] = collisions
    if removals or collisions or run.sim.counters.get('fault.delay'):
        oc.nontrivial = True


def evaluate(plan: dict[str, Any]) -> Outcome:
    return common.evaluate_closed_loop(plan, oracle)
