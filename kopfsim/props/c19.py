"""
C19 -- Watch coverage and continuity under reconnects, 410s, pauses and cluster changes.
"""
from __future__ import annotations

import fnmatch
import re
from typing import Any, Optional

from kopfsim import runner
from kopfsim.props import common
from kopfsim.search import Chooser, Outcome

ID = 'C19'
TITLE = 'Watch coverage and continuity under reconnects, 410s, pauses and cluster changes'
LEVEL = 'exploration'
RULE = ('operators serving namespace patterns or the whole cluster; namespaces and CRDs created and deleted at run time; '
        'object changes in all namespaces; stream faults at drawn positions: EOF, connection reset, server timeout '
        '(timeoutSeconds), silence (inactivity), history compaction (410 Gone) on reconnect, explicit 410 ERROR events, '
        'unknown ERROR events, bookmarks; pauses/resumes through a higher-priority peer. Oracle on the fake API\'s request '
        'log and kopf\'s own yields: exactly one open watch per served (resource, namespace) when settled; every watch '
        'request resumes from the latest list or yielded version (never ahead), a re-list follows every 410; every live '
        'object\'s latest state is yielded by quiescence; nothing is yielded after an unknown ERROR; nothing is listed or '
        'watched while paused and watching restarts with a list. Distinct = abstract trace signature; non-trivial = at '
        'least one reconnect, 410, cluster change or pause happened.')
COMPONENTS = common.COMPONENTS
ASSUMPTIONS = common.BASE_ASSUMPTIONS + [
    'coverage is judged at settled instants (no namespace/CRD change, stream fault or pause within the last 10 s)',
]
SETTLE = 10.0
_URL = re.compile(r'^/apis/[^/]+/[^/]+/(?:namespaces/(?P<ns>[^/]+)/)?(?P<plural>[a-z]+)(?:/(?P<name>[^/]+))?$')
REDUCIBLE = ['actions', 'net.rules', 'objects']


def gen_plan(ch: Chooser, tier: str) -> dict[str, Any]:
    settings = common.base_settings(ch)
    if ch.bool(0.4):
        settings['server_timeout'] = ch.choice([5.0, 12.0])
    settings['inactivity_timeout'] = ch.choice([8.0, 70.0])
    clusterwide = ch.bool(0.35)
    patterns = None if clusterwide else ch.choice([['ns-*'], ['ns-a', 'ns-b'], ['ns-*', '!ns-x*'], ['*']])
    handlers = [{'id': 'evw', 'kind': 'event', 'resource': 'widgets'},
                {'id': 'evg', 'kind': 'event', 'resource': 'gadgets'}]
    namespaces = ['default', 'ns-a', 'other']
    kinds = [{'plural': 'widgets'}, {'plural': 'gadgets', 'installed': ch.bool(0.5)}]
    horizon = ch.choice([20.0, 40.0])
    actions: list[dict[str, Any]] = [{'t': 0.0, 'do': 'start', 'op': 'op1'}]
    objects = [{'kind': 'widgets', 'ns': 'ns-a', 'body': {'metadata': {'name': 'wa'}, 'spec': {'a': 0}}},
               {'kind': 'widgets', 'ns': 'other', 'body': {'metadata': {'name': 'wo'}, 'spec': {'a': 0}}}]
    counter = 0
    live_ns = list(namespaces)
    gadgets_on = kinds[1]['installed']
    events = []
    for _ in range(ch.int(4, 16)):
        t = ch.float(1.0, horizon)
        what = ch.weighted([('edit', 6), ('create', 3), ('ns-create', 1.5), ('ns-delete', 1), ('crd', 1.5),
                            ('eof', 2), ('reset', 1.5), ('gone', 1.5), ('error410', 1), ('silence', 0.7)])
        events.append((t, what))
    events.sort()
    rules: list[dict[str, Any]] = []
    for t, what in events:
        counter += 1
        if what == 'edit':
            actions.append({'t': t, 'do': 'patch', 'kind': 'widgets', 'ns': ch.choice(['ns-a', 'other']),
                            'name': ch.choice(['wa', 'wo', f'w{counter % 3}']), 'patch': {'spec': {'a': counter}}})
        elif what == 'create':
            ns = ch.choice(live_ns)
            kind = 'gadgets' if gadgets_on and ch.bool(0.4) else 'widgets'
            actions.append({'t': t, 'do': 'create', 'kind': kind, 'ns': ns,
                            'body': {'metadata': {'name': f'{kind[0]}{counter % 3}'}, 'spec': {'a': counter}}})
        elif what == 'ns-create':
            name = ch.choice(['ns-b', 'ns-c', 'ns-x1', 'zeta'])
            if name not in live_ns:
                live_ns.append(name)
                actions.append({'t': t, 'do': 'ns-create', 'name': name})
                actions.append({'t': round(t + 0.5, 6), 'do': 'create', 'kind': 'widgets', 'ns': name,
                                'body': {'metadata': {'name': 'wn'}, 'spec': {'a': counter}}})
        elif what == 'ns-delete':
            cands = [n for n in live_ns if n not in ('default',)]
            if cands:
                name = ch.choice(cands)
                live_ns.remove(name)
                actions.append({'t': t, 'do': 'ns-delete', 'name': name})
        elif what == 'crd':
            gadgets_on = not gadgets_on
            actions.append({'t': t, 'do': 'crd-install' if gadgets_on else 'crd-uninstall', 'kind': 'gadgets'})
        elif what in ('eof', 'reset'):
            actions.append({'t': t, 'do': 'close-streams', 'kind': ch.choice(['widgets', 'widgets', None]), 'how': what})
        elif what == 'gone':
            actions.append({'t': t, 'do': 'compact', 'kind': 'widgets'})
            actions.append({'t': round(t + 0.01, 6), 'do': 'close-streams', 'kind': 'widgets', 'how': 'eof'})
        elif what == 'error410':
            actions.append({'t': t, 'do': 'stream-error', 'kind': 'widgets', 'code': 410})
        elif what == 'silence':
            rules.append({'phase': 'event', 'match': {'kind': 'widgets', 'from_t': t}, 'count': 1,
                          'action': {'kind': 'stream-silence'}})
    if rules:
        settings['inactivity_timeout'] = 8.0   # so that the run is long enough to see the recovery from silence
    unknown_error = ch.bool(0.12)
    if unknown_error:
        actions.append({'t': ch.float(2.0, horizon), 'do': 'stream-error', 'kind': 'widgets', 'code': 500})
    plan: dict[str, Any] = {}
    opspec: dict[str, Any] = {'id': 'op1', 'settings': settings, 'handlers': handlers}
    if patterns is not None:
        opspec['namespaces'] = patterns
    if ch.bool(0.3):
        opspec.update(standalone=False, peering_name='default', priority=10)
        settings['peering_lifetime'] = 20
        if clusterwide:
            plan['peering'] = {'objects': [{'kind': 'clusterkopfpeerings', 'name': 'default'}]}
        else:
            plan['peering'] = {'objects': [{'kind': 'kopfpeerings', 'name': 'default', 'ns': ns} for ns in namespaces]}
        t = ch.float(3.0, horizon * 0.6)
        life = ch.choice([4, 60])
        pk = 'clusterkopfpeerings' if clusterwide else 'kopfpeerings'
        # (the rival may show up in some of the namespaces only: one is enough to pause the whole operator)
        rival_ns = [None] if clusterwide else (namespaces if ch.bool(0.6) else [ch.choice(namespaces)])
        for ns in rival_ns:
            actions.append({'t': t, 'do': 'peer-set', 'identity': 'rival', 'priority': 100, 'lifetime': life,
                            'kind': pk, 'ns': ns})
            if life == 60:
                actions.append({'t': round(t + ch.choice([2.0, 8.0]), 6), 'do': 'peer-clear', 'identity': 'rival',
                                'kind': pk, 'ns': ns})
        if not clusterwide and ch.bool(0.5):
            # a namespace (or the optional kind) goes away right when the pause begins: its watchers are cancelled by
            # the orchestrator while they are re-connecting and already told to pause
            victim = ch.choice([n for n in live_ns if n != 'default'] or ['other'])
            dt = ch.choice([-0.02, -0.004, 0.002, 0.01])
            if victim in live_ns:
                live_ns.remove(victim)
                actions.append({'t': round(max(0.5, t + dt), 6), 'do': 'ns-delete', 'name': victim})
                actions[:] = [a for a in actions if not (a.get('ns') == victim and a['t'] >= t + dt and a['do'] != 'ns-delete')]
        if not clusterwide:
            # mandatory peering needs its object in every served namespace, also in those created later
            for a in list(actions):
                if a['do'] == 'ns-create':
                    actions.append({'t': round(a['t'] + 0.05, 6), 'do': 'create', 'kind': 'kopfpeerings', 'ns': a['name'],
                                    'body': {'metadata': {'name': 'default'}}, 'actor': 'admin'})
    else:
        opspec['standalone'] = True
    const_lat = None
    if ch.bool(0.2):
        # two changes of what is served (namespaces, the optional kind) within one instant, delivered with equal delays:
        # the second one is noticed while the orchestrator is still adjusting its watchers to the first one
        t2 = round(ch.float(3.0, horizon), 6)
        const_lat = ch.choice([0.002, 0.01])
        pool = [n for n in live_ns if n != 'default']
        both: list[dict[str, Any]] = []
        slow_first = False
        for k in range(2):
            kind_ = ch.weighted([('ns-delete', 6 if pool else 0), ('ns-create', 2), ('crd', 1)])
            tk = round(t2 + (0.0 if k == 0 else ch.choice([0.3, 0.8]) if slow_first else ch.choice([0.0, 0.0002, 0.001, 0.3])), 6)
            if kind_ == 'ns-delete':
                victim = pool.pop(ch.int(0, len(pool) - 1))
                live_ns.remove(victim)
                both.append({'t': tk, 'do': 'ns-delete', 'name': victim})
                if k == 0 and victim in namespaces and ch.bool(0.8):
                    # ... and that takes its time: a handler is still busy with an object of the namespace that goes
                    objects.append({'kind': 'widgets', 'ns': victim, 'body': {'metadata': {'name': 'wslow'}, 'spec': {'a': 0}}})
                    handlers[0]['scripts'] = {'wslow': [{'do': 'ok', 'dur': 0.0}, {'do': 'ok', 'dur': 1.5}]}
                    both.append({'t': round(t2 - 0.3, 6), 'do': 'patch', 'kind': 'widgets', 'ns': victim, 'name': 'wslow',
                                 'patch': {'spec': {'a': 1}}})
                    slow_first = True
                actions[:] = [a for a in actions if not ((a.get('ns') == victim or a.get('name') == victim and
                                                          a['do'].startswith('ns-')) and a['t'] >= t2)]
            elif kind_ == 'ns-create':
                name = next((n for n in ('ns-d', 'ns-e') if n not in live_ns), None)
                if name is not None:
                    live_ns.append(name)
                    both.append({'t': tk, 'do': 'ns-create', 'name': name})
                    both.append({'t': round(tk + 0.5, 6), 'do': 'create', 'kind': 'widgets', 'ns': name,
                                 'body': {'metadata': {'name': 'wn'}, 'spec': {'a': 77}}})
                    if plan.get('peering') and not clusterwide:
                        both.append({'t': round(tk + 0.05, 6), 'do': 'create', 'kind': 'kopfpeerings', 'ns': name,
                                     'body': {'metadata': {'name': 'default'}}, 'actor': 'admin'})
            else:
                later = [a for a in actions if a['do'] in ('crd-install', 'crd-uninstall') and a['t'] >= t2]
                earlier = [a for a in actions if a['do'] in ('crd-install', 'crd-uninstall') and a['t'] < t2]
                if not later:
                    on_now = (earlier[-1]['do'] == 'crd-install') if earlier else kinds[1]['installed']
                    both.append({'t': tk, 'do': 'crd-uninstall' if on_now else 'crd-install', 'kind': 'gadgets'})
        actions.extend(both)
    actions.sort(key=lambda a: a['t'])
    plan.update({
        'until': horizon + 40.0, 'horizon': horizon, 'unknown_error': unknown_error,
        'namespaces': namespaces, 'kinds': kinds,
        'cluster_knobs': {'bookmark_interval': ch.choice([None, 3.0, 10.0])},
        'operators': [opspec], 'objects': objects, 'actions': actions,
        'tie_random': ch.bool(0.3),
        'net': {'latency_seed': ch.int(0, 1 << 30), 'lat_lo': 0.001, 'lat_hi': ch.choice([0.005, 0.05]),
                'watch_lat_lo': 0.001, 'watch_lat_hi': ch.choice([0.005, 0.05]), 'rules': rules,
                'chunking': ch.choice(['line', 'torn'])},
    })
    if const_lat is not None:
        plan['net']['watch_lat_lo'] = plan['net']['watch_lat_hi'] = const_lat
    return plan


def _match_ns(name: str, pattern: str) -> bool:
    globs = [g.strip() for g in pattern.split(',')]
    if not globs or globs[0].startswith('!'):
        globs.insert(0, '*')
    matches = first = fnmatch.fnmatch(name, globs[0])
    for g in globs[1:]:
        if g.startswith('!'):
            matches = matches and not fnmatch.fnmatch(name, g.lstrip('!'))
        else:
            matches = matches or (first and fnmatch.fnmatch(name, g))
    return matches


def oracle(run: runner.Run, oc: Outcome) -> None:
    opid = 'op1'
    op = run.op(opid)
    if op is None:
        return
    spec = common.spec_of(run, opid)
    patterns = spec.get('namespaces')
    plan = run.plan
    t_end = run.sim.now
    served_kinds = tuple(sorted({h.get('resource', 'widgets') for h in spec.get('handlers', [])}))
    actor = op.actor
    trace = run.sim.trace
    by_rid = {r.rid: r for r in run.net.requests}
    disturbances = [a['t'] for a in plan['actions'] if a['do'] in (
        'ns-create', 'ns-delete', 'crd-install', 'crd-uninstall', 'close-streams', 'compact', 'stream-error',
        'peer-set', 'peer-clear', 'start')]
    disturbances += [e[1] for e in trace if e[2] in ('watch-eof', 'watch-break')]
    disturbed_recently = any(t_end - SETTLE <= t <= t_end for t in disturbances)
    # a connection that went silent is a fault in progress until the inactivity timeout had its chance
    inactivity = float(spec['settings'].get('inactivity_timeout', 70.0))
    for c in run.net.open_streams:
        if c.actor == actor and c.silenced and t_end - getattr(c, 'silenced_at', t_end) < inactivity + SETTLE:
            disturbed_recently = True
    nontrivial = bool(disturbances[1:])

    # pause windows (by the rival's record in the peering objects)
    pauses: list[tuple[float, float]] = []
    for a in plan['actions']:
        if a['do'] == 'peer-set' and plan.get('peering'):
            # only a rival seen by this operator pauses it: in the cluster-wide peering object of a cluster-wide
            # operator, or in the peering object of a namespace that it serves
            if (a.get('ns') is None) != (patterns is None):
                continue
            if a.get('ns') is not None and not any(_match_ns(a['ns'], p) for p in patterns or []):
                continue
            if a.get('ns') is not None and not _ns_alive(plan, a['ns'], a['t']):
                continue
            t_off = min([b['t'] for b in plan['actions'] if b['do'] == 'peer-clear' and b['t'] >= a['t']
                         and b.get('ns') == a.get('ns')] + [a['t'] + a.get('lifetime', 60)]
                        + [b['t'] for b in plan['actions'] if b['do'] == 'ns-delete' and b['t'] >= a['t']
                           and b.get('name') == a.get('ns')])
            pauses.append((a['t'], t_off))
    paused_now = any(t_on <= t_end and t_off + SETTLE >= t_end for t_on, t_off in pauses)
    # with mandatory peering an operator stays paused for as long as a served namespace has no peering object yet
    if plan.get('peering') and patterns is not None and spec.get('peering_name'):
        from kopfsim import cluster as cl_
        for nsobj in run.cluster.list(cl_.NAMESPACES, None):
            nsname = nsobj['metadata']['name']
            if any(_match_ns(nsname, p) for p in patterns) and \
                    run.cluster.get(run.rdef('kopfpeerings'), nsname, spec['peering_name']) is None:
                paused_now = True

    unknown_error_at = min([e[1] for e in trace if e[2] == 'act' and e[3] == 'stream-error'
                            and any(a['do'] == 'stream-error' and a.get('code') != 410 and abs(a['t'] - e[1]) < 1e-9
                                    for a in plan['actions'])], default=None)

    # ---------------- A. coverage at a settled end ----------------
    if op.alive and not disturbed_recently and not paused_now and not run.step_capped:
        live_ns = [o['metadata']['name'] for o in run.cluster.list(run.rdef('namespaces') if 'namespaces' in run.rdefs else
                                                                   _ns_def(run), None)]
        expected: set[tuple[str, Optional[str]]] = set()
        for kind in served_kinds:
            installed = any(rd.plural == kind for rd in run.cluster.defs.values())
            if not installed:
                continue
            if patterns is None:
                expected.add((kind, None))
            else:
                for ns in live_ns:
                    if any(_match_ns(ns, p) for p in patterns):
                        expected.add((kind, ns))
        actual: dict[tuple[str, Optional[str]], int] = {}
        for conn in run.net.open_streams:
            if conn.actor == actor and conn.rdef.plural in served_kinds:
                key = (conn.rdef.plural, conn.ns)
                actual[key] = actual.get(key, 0) + 1
        # a watch that is between two connections (reconnect backoff) is looked up in the request log
        for key in expected:
            if key not in actual:
                recent = [r for r in run.net.requests if r.session.actor == actor and r.attrs.get('kind') == key[0]
                          and r.attrs.get('ns') == key[1] and r.t_sent > t_end - SETTLE]
                # how did the last watcher of this pair end, if it did?
                exits = [e for e in trace if e[2] == 'watch-exit' and e[3] == actor and e[4] == key[0] and e[5] == key[1]]
                sig = 'missing'
                if exits and str(exits[-1][6]).startswith('error:'):
                    sig = 'missing-after-watcher-failed'
                    why = f"; its watcher ended with {exits[-1][6][6:]} at t={exits[-1][1]:.3f} and was never replaced"
                else:
                    why = f"; its watcher: {exits[-1][6] + f' at t={exits[-1][1]:.3f}' if exits else 'still there'}"
                if not recent:
                    oc.add('C19/coverage', sig,
                           f"no watch is open for the served pair {key} at the settled end t={t_end:.1f} "
                           f"(open: {sorted(actual, key=str)}){why}", pair=str(key))
        for key, n in actual.items():
            if key not in expected:
                oc.add('C19/coverage', 'extra', f"a watch is open for {key}, which is not served "
                       f"(served: {sorted(expected, key=str)})", pair=str(key))
            elif n > 1:
                oc.add('C19/coverage', 'duplicate', f"{n} watches are open for the served pair {key}", pair=str(key))

    # ---------------- B. continuity per lineage ----------------
    lineages: dict[tuple[str, str, Optional[str]], list[tuple]] = {}  # type: ignore[type-arg]
    for e in trace:
        if e[2] == 'req' and e[5] == 'GET':
            r = by_rid.get(e[3])
            if r is None:
                continue
            if r.attrs.get('kind') is None:
                # the kind was not installed at the instant of sending (a CRD being re-created): read the URL itself
                m_ = _URL.match(r.path)
                if m_ and m_.group('name') is None:
                    r.attrs.update(kind=m_.group('plural'), ns=m_.group('ns'), name=None)
            if r.attrs.get('kind') not in served_kinds or r.attrs.get('name') is not None:
                continue
            key = (r.session.actor, r.attrs['kind'], r.attrs.get('ns'))
            lineages.setdefault(key, []).append(('watch' if r.attrs['watch'] else 'list', e[0], e[1], e[8], r))
        elif e[2] == 'yield' and e[4] in served_kinds:
            key = (e[3], e[4], e[5])
            lineages.setdefault(key, []).append(('yield', e[0], e[1], e[8], e[6], e[7]))
    for key, items in lineages.items():
        items.sort(key=lambda x: x[1])
        last_list_rv: Optional[str] = None
        last_seen: Optional[str] = None
        need_list = False
        for it in items:
            if it[0] == 'list':
                r = it[4]
                rsp = r.response
                payload = getattr(rsp, '_sim_payload', None) if rsp is not None else None
                last_list_rv = (payload or {}).get('metadata', {}).get('resourceVersion') if isinstance(payload, dict) else None
                last_seen = None
                need_list = False
                # remember when the list's answer arrived: until then nothing may be watched
            elif it[0] == 'yield':
                if it[4] in ('LISTED',):
                    continue
                if it[3] is not None and it[4] is not None:
                    last_seen = it[3]
            elif it[0] == 'watch':
                since = it[3]
                if need_list:
                    oc.add('C19/continuity', 'no-relist-after-410',
                           f"{key}: after a 410 the stream was re-opened with resourceVersion={since} at t={it[2]:.3f} "
                           f"without a fresh listing", lineage=str(key))
                    need_list = False
                want = last_seen if last_seen is not None else last_list_rv
                if want is not None and since is not None and since != want:
                    try:
                        ahead = int(since) > int(want)
                    except ValueError:
                        ahead = True
                    oc.add('C19/continuity', 'ahead' if ahead else 'behind',
                           f"{key}: a watch was opened at t={it[2]:.3f} from resourceVersion={since}, but the latest "
                           f"version listed/yielded on it was {want}", lineage=str(key))
        # 410s on this lineage demand a re-list
        conns = [c for c in run.net.all_streams if (c.actor, c.rdef.plural, c.ns) == key]
        for c in conns:
            for (t, etype, uid, rv) in c.delivered:
                pass
    # 410 handling: after an ERROR/410 was delivered on a connection, the next request of the lineage is a list
    for c in run.net.all_streams:
        if c.rdef.plural not in served_kinds:
            continue
        errs = [e for e in trace if e[2] == 'watch-ev' and e[3] == c.cid and e[4] == 'ERROR']
        if not errs:
            continue
        key = (c.actor, c.rdef.plural, c.ns)
        t_err = errs[0][1]
        nxt = [it for it in lineages.get(key, []) if it[0] in ('list', 'watch') and it[2] > t_err]
        is410 = c.close_reason == 'server-410' or any(
            a['do'] == 'stream-error' and a.get('code') == 410 and abs(a['t'] - t_err) < 1.0 for a in plan['actions'])
        if nxt and is410 and nxt[0][0] != 'list':
            oc.add('C19/continuity', 'no-relist-after-410',
                   f"{key}: a 410 arrived at t={t_err:.3f} and the next request was a watch from {nxt[0][3]}",
                   lineage=str(key))
        if not is410:
            # whatever the server sent on this connection after the ERROR must not be handed on
            seq_err = errs[0][0]
            after_err = {(e[6], e[7]) for e in trace if e[2] == 'watch-ev' and e[3] == c.cid and e[0] > seq_err
                         and e[4] != 'ERROR'}
            later = [it for it in lineages.get(key, []) if it[0] == 'yield' and it[1] > seq_err
                     and (it[5], it[3]) in after_err
                     and not any(x[0] == 'list' and seq_err < x[1] < it[1] for x in lineages.get(key, []))]
            if later:
                oc.add('C19/unknown-error-skipped', 'yield-after-error',
                       f"{key}: an unknown ERROR event arrived at t={t_err:.3f} and events kept being yielded from "
                       f"that stream afterwards ({len(later)})", lineage=str(key))

    # ---------------- C. no change is skipped (end to end) ----------------
    if op.alive and not disturbed_recently and not paused_now and not run.step_capped and unknown_error_at is None:
        for kind in served_kinds:
            if not any(rd.plural == kind for rd in run.cluster.defs.values()):
                continue
            rd = run.rdef(kind)
            for obj in run.cluster.list(rd, None):
                meta = obj['metadata']
                ns = meta.get('namespace')
                if patterns is not None and not any(_match_ns(ns, p) for p in patterns):
                    continue
                if run.cluster.get(_ns_def(run), None, ns) is None:
                    continue
                yielded = [e for e in trace if e[2] == 'yield' and e[3] == actor and e[4] == kind and e[7] == meta['uid']]
                newest = max((int(e[8]) for e in yielded if e[8] is not None), default=-1)
                if newest < int(meta['resourceVersion']):
                    exits_ = [e for e in trace if e[2] == 'watch-exit' and e[3] == actor and e[4] == kind
                              and e[5] == (ns if patterns is not None else None)]
                    died = bool(exits_) and str(exits_[-1][6]).startswith('error:')
                    oc.add('C19/skipped-change', 'stale-after-watcher-failed' if died else 'stale-at-quiescence',
                           f"{kind} {ns}/{meta['name']} is at resourceVersion {meta['resourceVersion']} but the newest "
                           f"state handed to processing is {newest if newest >= 0 else None} at the settled end",
                           uid=meta['uid'])

    # ---------------- D. paused: nothing listed or watched; a list first after resume ----------------
    for (t_on, t_off) in pauses:
        if t_off - t_on < 4.0:
            continue
        inside = [r for r in run.net.requests if r.session.actor == actor and r.attrs.get('kind') in served_kinds
                  and r.method == 'GET' and t_on + 2.5 < r.t_sent < t_off - 0.5]
        if inside:
            oc.add('C19/paused', 'request-while-paused',
                   f"{len(inside)} list/watch request(s) for served kinds were made while paused "
                   f"([{t_on:.2f}, {t_off:.2f}]); first: {'watch' if inside[0].attrs['watch'] else 'list'} "
                   f"{inside[0].path} at t={inside[0].t_sent:.3f}")
        for kind in served_kinds:
            after = [r for r in run.net.requests if r.session.actor == actor and r.attrs.get('kind') == kind
                     and r.method == 'GET' and r.attrs.get('name') is None and r.t_sent >= t_off - 0.5]
            by_ns: dict[Any, list[Any]] = {}
            for r in after:
                by_ns.setdefault(r.attrs.get('ns'), []).append(r)
            for ns, rs in by_ns.items():
                if rs and rs[0].attrs['watch'] and rs[0].t_sent > t_on + 2.5:
                    oc.add('C19/paused', 'no-list-after-resume',
                           f"after the pause [{t_on:.2f}, {t_off:.2f}] watching of {kind}@{ns} restarted with a watch "
                           f"request (from {rs[0].query.get('resourceVersion')}) instead of a fresh listing")
    if nontrivial:
        oc.nontrivial = True
    oc.probes['probe.reconnects'] = sum(1 for e in trace if e[2] in ('watch-eof', 'watch-break'))
    oc.probes['probe.410'] = sum(1 for c in run.net.all_streams if c.close_reason == 'server-410')


def _ns_alive(plan: dict[str, Any], ns: str, t: float) -> bool:
    alive = ns in plan.get('namespaces', [])
    for b in sorted(plan['actions'], key=lambda b: b['t']):
        if b['t'] > t:
            break
        if b['do'] == 'ns-create' and b.get('name') == ns:
            alive = True
        elif b['do'] == 'ns-delete' and b.get('name') == ns:
            alive = False
    return alive


def _ns_def(run: runner.Run) -> Any:
    from kopfsim import cluster as cl
    return cl.NAMESPACES


def evaluate(plan: dict[str, Any]) -> Outcome:
    return common.evaluate_closed_loop(plan, oracle)
