"""
C09 -- Daemon/timer lifecycle: one instance, started on match, stopped in stages.
"""
from __future__ import annotations

from typing import Any, Optional

from kopfsim import runner
from kopfsim.props import changes, common, spawning
from kopfsim.search import Chooser, Outcome

ID = 'C09'
TITLE = 'Daemon/timer lifecycle: one instance, started on match, stopped in stages'
LEVEL = 'exploration'
RULE = ('1-3 objects x 1-3 daemons + 0-2 timers; daemon reactions: obeys the flag / polls it / needs cancellation / '
        'ignores cancellation for x s / exits on its own / raises; cancellation_backoff/timeout/polling incl. None; '
        'timers interval / idle / both / neither, sharp, initial delays; histories of label toggles (mismatch and '
        'quick re-match), graceful deletions, deletion before the finalizer landed, finalizer stripped then delete, '
        'pauses/resumes through a higher-priority peer record, graceful stop / cancellation of the operator. '
        'Oracles on the enter/exit log of the user functions and the stop flag they see. Distinct = abstract trace '
        'signature; non-trivial = at least one stop trigger (deletion, mismatch, pause, exit) hit a live instance.')
COMPONENTS = common.COMPONENTS
ASSUMPTIONS = common.BASE_ASSUMPTIONS + [
    'daemons that can only be stopped by cancellation always get a cancellation_timeout in this workload '
    '(without one kopf documents that it polls forever)',
]
EPS = 0.02
SLACK = 0.6          # from "the operator processed the trigger" to "the daemon sees the flag"
ESCALATION_SLACK = 2.0   # from 'the backoff is over' to 'the cancellation is thrown in' (re-check cycle, latencies)
PAUSE_SLACK = 2.5    # peering event delivery + daemon_killer's 1s poll
LONG_LIVED = ('obey', 'poll', 'cancel', 'ignore')


def gen_plan(ch: Chooser, tier: str) -> dict[str, Any]:
    plan = spawning.gen_spawning_plan(ch, sync_share=ch.choice([0.0, 0.0, 0.3, 0.7]))
    op = plan['operators'][0]
    names = sorted({o['body']['metadata']['name'] for o in plan['objects']} |
                   {a['body']['metadata']['name'] for a in plan['actions'] if a['do'] == 'create'})
    triggers: list[dict[str, Any]] = plan.setdefault('triggers', [])
    # Targeted timings, placed relative to what the system does (the rest of the plan stays random):
    # (a) a reason to stop arrives exactly while a daemon that has just returned on its own is patching its result
    exiting = [h for h in op['handlers'] if h['kind'] == 'daemon' and h['daemon']['mode'] == 'exit']
    if exiting and ch.bool(0.5):
        h = ch.choice(exiting)
        h['daemon'].setdefault('result', {'seen': 1})
        name = ch.choice(names)
        if plan.get('peering') and ch.bool(0.5):
            act: dict[str, Any] = {'do': 'peer-set', 'identity': 'rival2', 'priority': 100, 'lifetime': ch.choice([3, 60]),
                                   'delay': ch.choice([0.0, 0.001, 0.005])}
        else:
            act = {'do': 'patch', 'name': name, 'patch': {'metadata': {'labels': {'run': 'no'}}},
                   'delay': ch.choice([0.0, 0.001, 0.005])}
            if ch.bool(0.6):
                triggers.append({'on': {'what': 'h-', 'hid': h['id'], 'name': name},
                                 'actions': [{'do': 'patch', 'name': name, 'patch': {'metadata': {'labels': {'run': 'yes'}}},
                                              'delay': ch.choice([0.5, 3.0])}]})
        triggers.append({'on': {'what': 'h-', 'hid': h['id'], 'name': name}, 'actions': [act]})
    # (b) foreign writes racing with the operator's own requests (conflicts on its JSON-patches: carried-over functions)
    for _ in range(ch.int(0, 2)):
        name = ch.choice(names)
        triggers.append({'on': {'what': 'write', 'name': name, 'actor_prefix': 'op1', 'nth': ch.int(1, 6)},
                         'actions': [{'do': 'patch', 'name': name, 'patch': {'status': {'seen-by': ch.int(0, 9)}},
                                      'actor': 'controller', 'delay': ch.choice([0.0, 0.0005, 0.002])}]})
    # (c) a labelled daemon that needs cancellation next to an unlabelled one that has finished on its own, on a kind with
    #     a status subresource: when the label goes, the finalizer goes too (nothing needs it), in several requests
    if ch.bool(0.25):
        plan['kinds'][0]['status_subresource'] = True
        op['handlers'] = [h for h in op['handlers'] if h['kind'] != 'daemon'][:1] + [
            {'id': 'dmx', 'kind': 'daemon', 'daemon': {'mode': ch.choice(['ignore', 'cancel']), 'hold': ch.choice([0.5, 2.0])},
             'opts': {'labels': dict(spawning.RUN_LABEL), 'cancellation_backoff': ch.choice([0.5, 1.0]),
                      'cancellation_timeout': ch.choice([0.5, 3.0])}},
            {'id': 'dmy', 'kind': 'daemon', 'daemon': {'mode': 'exit', 'after': ch.choice([0.1, 1.0]), 'delay': 1.0,
                                                       'result': {'seen': 1}}, 'opts': {}}]
        if ch.bool(0.5):
            op['settings']['instant_exit_timeout'] = ch.choice([0.3, 0.6])
            op['handlers'].append({'id': 'dmz', 'kind': 'daemon', 'daemon': {'mode': 'cancel'},
                                   'opts': {'cancellation_backoff': 1.0, 'cancellation_timeout': 0.5}})
        for name in names[:2]:
            t = round(ch.float(4.0, plan['horizon']), 6)
            plan['actions'].append({'t': t, 'do': 'patch', 'name': name, 'patch': {'metadata': {'labels': {'run': 'no'}}}})
        plan['actions'].sort(key=lambda a: a['t'])
    # (d) events of the daemons' objects that are in the workers at the very instant the operator pauses: with equal
    #     delivery delays the peering worker and the objects' workers leave their batching windows together, and the
    #     daemons get their stop flag from the processing of those events, not from the pausing stopper
    sets = [a for a in plan['actions'] if a['do'] == 'peer-set' and a.get('identity') == 'rival']
    if plan.get('peering') and sets and ch.bool(0.5):
        t = sets[0]['t']
        lat = ch.choice([0.002, 0.01])
        plan['net']['watch_lat_lo'] = plan['net']['watch_lat_hi'] = lat
        sets[0]['priority'] = 100
        for a in plan['actions']:
            if a['do'] == 'peer-clear' and a.get('identity') == 'rival':
                a['t'] = round(t + ch.choice([6.0, 12.0]), 6)
        for name in names:
            plan['actions'].append({'t': t, 'do': 'patch', 'name': name, 'patch': {'spec': {'bump': ch.int(100, 999)}}})
        plan['actions'].sort(key=lambda a: a['t'])
    # (e) an object forcibly removed (finalizer stripped, then deleted) inside the gap in which the watch is re-established
    #     after a 410: no DELETED event will ever come for it
    if not plan.get('peering') and ch.bool(0.1):
        name = ch.choice(names)
        t = round(ch.float(4.0, plan['horizon'] * 0.8), 6)
        plan['actions'] = [a for a in plan['actions'] if a.get('name') != name or a['t'] < t - 1.0]
        plan['actions'].append({'t': t, 'do': 'stream-error', 'kind': 'widgets', 'code': 410})
        gap = ch.choice([0.0005, 0.02, 0.05])
        plan['actions'].append({'t': round(t + gap, 6), 'do': 'edit', 'edit': 'remove-finalizer', 'name': name,
                                'value': 'kopf.zalando.org/KopfFinalizerMarker', 'actor': 'admin'})
        plan['actions'].append({'t': round(t + gap + 0.0001, 6), 'do': 'delete', 'name': name})
        plan['actions'].sort(key=lambda a: a['t'])
    return plan


def oracle(run: runner.Run, oc: Outcome) -> None:
    opid = 'op1'
    op = run.op(opid)
    if op is None:
        return
    plan = run.plan
    hspecs = common.handler_specs(run, opid)
    st = common.StorageRef(common.spec_of(run, opid))
    snaps = common.snapshots(run)
    steps = changes.extract_steps(run)
    t_end = run.sim.now
    t_stop = op.t_stop_requested
    hit = 0

    # the operator must not die from daemon/timer errors
    if op.exit is not None and op.exit[1] == 'raised':
        oc.add('C09/operator-died', 'raised', f"kopf.operator() raised {op.exit[2]} at t={op.exit[0]:.2f}")
    if t_stop is not None and (op.state == 'running' or op.t_process_gone is None):
        t_close = min([e[1] for e in run.sim.trace if e[2] == 'session-close' and e[3] == op.actor], default=None)
        late = [c for c in run.calls if c.hkind in ('daemon', 'timer') and c.inc == op.incarnation
                and t_close is not None and c.t1 is not None and c.t1 > t_close]
        late_sync = [c for c in run.calls if c.hkind == 'daemon' and c.inc == op.incarnation and (c.extra or {}).get('sync')
                     and c.t1 is None and c.t0 > t_stop + 1e-6]
        oc.add('C09/exit-incomplete', 'sync-daemon-spawned-after-stop-requested' if late_sync else
               'daemon-outlived-session' if late else 'still-running',
               f"the operator was asked to stop at t={t_stop:.2f} but at t={t_end:.2f} it is still "
               f"{'running' if op.state == 'running' else 'hanging with leftover tasks'}")

    # pause windows, as the cluster saw them
    rival: list[tuple[float, Optional[float]]] = []
    myprio = common.spec_of(run, opid).get('priority', 0)
    for a in plan.get('actions', []):
        if a['do'] == 'peer-set' and a.get('priority', 100) >= myprio and plan.get('peering'):
            t_off = min([b['t'] for b in plan['actions'] if b['do'] == 'peer-clear' and b['t'] >= a['t']]
                        + [a['t'] + a.get('lifetime', 60)])
            rival.append((a['t'], t_off))

    by_inst: dict[tuple[int, str, str], list[runner.Call]] = {}
    for c in run.calls:
        if c.hkind in ('daemon', 'timer') and c.op == opid and c.uid is not None:
            by_inst.setdefault((c.inc, c.uid, c.hid), []).append(c)

    for (inc, uid, hid), calls in by_inst.items():
        h = hspecs[hid]
        opts = h.get('opts', {})
        # 1. at most one instance at a time
        for a, b in zip(calls, calls[1:]):
            if a.t1 is None or b.t0 < a.t1 - 1e-9:
                oc.add('C09/two-instances', h['kind'],
                       f"{h['kind']} {hid} of {uid}: a new instance started at t={b.t0:.4f} while the previous one "
                       f"(since t={a.t0:.4f}) had not ended ({a.t1})", uid=uid, hid=hid)
                break
        if h['kind'] != 'daemon':
            continue
        mode = h['daemon']['mode']
        backoff = opts.get('cancellation_backoff')
        for k, c in enumerate(calls):
            extra = c.extra or {}
            flag_at = extra.get('flag_at')
            # 2. stages: flag first, cancellation not before flag + backoff
            t_cancel = extra.get('first_cancel_at') if mode == 'ignore' else (c.t1 if c.outcome == 'cancelled' else None)
            exiting = t_stop is not None and t_cancel is not None and t_cancel >= t_stop - EPS
            if t_cancel is not None and not op.tearing_down:
                if flag_at is None and not exiting and (op.exit is None or t_cancel < op.exit[0]):
                    oc.add('C09/stages', 'cancelled-without-flag',
                           f"daemon {hid} of {uid} was cancelled at t={t_cancel:.4f} without its stop flag having "
                           f"been set", uid=uid, hid=hid)
                elif flag_at is not None and backoff is not None and t_cancel < flag_at + backoff - EPS \
                        and not (op.exit is not None and t_cancel >= op.exit[0] - EPS) \
                        and not (op.spec.get('_cancelled') or _cancelled_before(run, opid, t_cancel)):
                    oc.add('C09/stages', 'cancelled-before-backoff',
                           f"daemon {hid} of {uid}: stop flag at t={flag_at:.4f}, cancelled at t={t_cancel:.4f}, "
                           f"i.e. before the cancellation backoff of {backoff}s elapsed", uid=uid, hid=hid)
            # 2b. ... and the cancellation does come once the backoff is over (for those that do not obey the flag)
            timeout = opts.get('cancellation_timeout')
            if mode in ('cancel', 'ignore') and timeout is not None and flag_at is not None and not op.tearing_down \
                    and not h['daemon'].get('sync'):  # (a thread cannot see its cancellation)
                t_due = flag_at + float(backoff or 0.0)
                # a pause or the exit of the operator takes the stopping over and restarts its stages from then
                for (t_on, _) in rival:
                    if flag_at - PAUSE_SLACK <= t_on <= t_due + ESCALATION_SLACK:
                        t_due = max(t_due, t_on + PAUSE_SLACK + float(backoff or 0.0))
                if t_stop is not None and flag_at <= t_stop <= t_due + ESCALATION_SLACK:
                    t_due = max(t_due, t_stop + float(backoff or 0.0))
                # ... and so does the disappearance of the object (the re-check of the per-object stopping meets a 404;
                # the DELETED event hands the daemon over to a stopper of its own, whose stages start then)
                for s_ in steps.get((opid, uid), []):
                    if s_.etype == 'DELETED' and s_.t1 is not None and flag_at <= s_.t0 <= t_due + ESCALATION_SLACK:
                        t_due = max(t_due, s_.t1 + float(backoff or 0.0))
                t_seen_cancel = extra.get('first_cancel_at') if mode == 'ignore' else (c.t1 if c.outcome == 'cancelled' else None)
                gone = min([x for x in (op.t_killed, op.exit[0] if op.exit else None) if x is not None], default=t_end)
                alive_to = min(c.t1 if c.t1 is not None else t_end, gone, t_end)
                # (every daemon of the object is given the configured 'instant exit' wait, twice, before the re-check is
                # even scheduled: the stages of one daemon shift by that much)
                iet = float(common.spec_of(run, opid)['settings'].get('instant_exit_timeout') or 0.0)
                n_d = sum(1 for h_ in hspecs.values() if h_['kind'] in ('daemon', 'timer'))
                esc_slack = ESCALATION_SLACK + 2 * n_d * iet
                if alive_to > t_due + esc_slack and (t_seen_cancel is None or t_seen_cancel > t_due + esc_slack):
                    # did the reason to stop vanish meanwhile (the object matched again, the pause ended)?
                    why_flag = str(extra.get('reason_at_flag'))
                    vanished = False
                    for s_ in steps.get((opid, uid), []):
                        if flag_at < s_.t0 <= t_due + esc_slack and s_.etype != 'DELETED':
                            v_ = snaps.get((uid, s_.rv))
                            if v_ is not None and (v_.get('metadata') or {}).get('deletionTimestamp') is None \
                                    and spawning.matches(h, v_) and 'FILTERS_MISMATCH' in why_flag:
                                vanished = True
                    if 'OPERATOR_PAUSING' in why_flag and any(t_off is not None and flag_at < t_off <= t_due + ESCALATION_SLACK + PAUSE_SLACK
                                                              for (_, t_off) in rival):
                        vanished = True
                    # told apart: the object vanished without any event (removed while the watch was re-established): the
                    # re-check of its stopping meets a 404 and nothing ever continues the stages (the other face of KF-C09-4)
                    unnoticed = any(tr_.uid == uid and tr_.after is None and tr_.before is not None and tr_.t <= t_due + esc_slack
                                    for tr_ in run.transitions) and \
                        not any(s_.etype == 'DELETED' for s_ in steps.get((opid, uid), []))
                    oc.add('C09/stages', 'object-gone-unnoticed' if unnoticed else
                           'reason-vanished-while-stopping' if vanished else 'not-cancelled-after-backoff',
                           f"daemon {hid} of {uid} (mode {mode}): stop flag at t={flag_at:.4f}, backoff={backoff}, so the "
                           f"cancellation was due at t={t_due:.4f}; it came at {t_seen_cancel} (instance alive until "
                           f"{alive_to:.3f}; reason at flag: {extra.get('reason_at_flag')})", uid=uid, hid=hid)
            # 2c. abandonment not before flag + backoff + timeout: the operator's exit does not leave a daemon behind that
            #     is still within its stages (seen on synchronous daemons above all: their threads cannot be cancelled)
            if timeout is not None and flag_at is not None and op.exit is not None and op.exit[1] == 'returned' \
                    and t_stop is not None and not _cancelled_before(run, opid, float('inf')) and not op.tearing_down:
                t_x = op.exit[0]
                if (c.t1 is None or c.t1 > t_x + EPS) and c.t0 <= t_stop and \
                        t_x < flag_at + float(backoff or 0.0) + float(timeout) - EPS:
                    oc.add('C09/stages', 'abandoned-before-timeout',
                           f"daemon {hid} of {uid}: stop flag at t={flag_at:.4f}, backoff={backoff}, timeout={timeout}; "
                           f"kopf.operator() returned at t={t_x:.4f} and left it running (until {c.t1}), i.e. it was abandoned "
                           f"before t={flag_at + float(backoff or 0.0) + float(timeout):.4f}", uid=uid, hid=hid)
            # 2d. ... nor is it declared abandoned before that (the reason it sees when it does exit says so)
            if timeout is not None and flag_at is not None and c.t1 is not None and not op.tearing_down \
                    and 'DAEMON_ABANDONED' in str(extra.get('reason_at_exit')) \
                    and c.t1 < flag_at + float(backoff or 0.0) + float(timeout) - EPS \
                    and not _cancelled_before(run, opid, c.t1):
                oc.add('C09/stages', 'abandoned-before-timeout',
                       f"daemon {hid} of {uid}: stop flag at t={flag_at:.4f}, backoff={backoff}, timeout={timeout}; when it "
                       f"exited at t={c.t1:.4f} it had already been declared abandoned ({extra.get('reason_at_exit')}), i.e. "
                       f"before t={flag_at + float(backoff or 0.0) + float(timeout):.4f}", uid=uid, hid=hid)
            # 4. an instance that exited on its own is not started again in this process
            if c.outcome == 'returned-own' and not c.stop_seen and k + 1 < len(calls):
                oc.add('C09/restarted', 'after-own-exit',
                       f"daemon {hid} of {uid} exited on its own at t={c.t1:.4f} and was started again at "
                       f"t={calls[k + 1].t0:.4f} in the same operator process", uid=uid, hid=hid)
            # 3. the stop is requested when the operator processes a reason to stop
            t_alive_to = c.t1 if c.t1 is not None else float('inf')
            triggers: list[tuple[float, str]] = []
            for s in steps.get((opid, uid), []):
                if s.actor != f'{opid}#{inc}' or s.t1 is None or s.t0 < c.t0 or s.how != 'returned':
                    continue
                view = snaps.get((uid, s.rv))
                if s.etype == 'DELETED':
                    triggers.append((s.t1, 'gone'))
                elif view is not None and (view.get('metadata') or {}).get('deletionTimestamp') is not None:
                    triggers.append((s.t1, 'deletion'))
                elif view is not None and not spawning.matches(h, view):
                    triggers.append((s.t1, 'mismatch'))
            for (t_on, t_off) in rival:
                if c.t0 <= t_on and (t_off is None or t_off - t_on > PAUSE_SLACK + 1.0):
                    triggers.append((t_on + PAUSE_SLACK - SLACK, 'pause'))
            if t_stop is not None and op.t_stop_requested is not None and not _cancelled_before(run, opid, float('inf')):
                triggers.append((t_stop, 'exit'))
            for (t_trig, why) in sorted(triggers):
                if t_trig + SLACK >= t_alive_to or t_trig + SLACK >= t_end:
                    continue  # the instance ended (or the run ended) before we could tell
                hit += 1
                if flag_at is None or flag_at > t_trig + SLACK:
                    oc.add('C09/not-stopped', why,
                           f"daemon {hid} of {uid} (running since t={c.t0:.2f}) was not asked to stop although the "
                           f"operator processed a reason to ({why}) at t={t_trig:.4f}; flag seen at {flag_at}",
                           uid=uid, hid=hid)
                break

    # 5. at quiescence every live, matching, non-deleting object has its long-lived daemons running
    paused_now = any(t_on <= t_end and (t_off is None or t_off > t_end - 30.0) for t_on, t_off in rival)
    if op.alive and t_stop is None and not paused_now and not run.step_capped:
        rd = run.rdef('widgets')
        inc = op.incarnation
        for obj in run.cluster.list(rd, None):
            meta = obj['metadata']
            if meta.get('deletionTimestamp') is not None:
                continue
            uid = meta['uid']
            created = next((t.t for t in run.transitions if t.uid == uid and t.verb == 'create'), 0.0)
            if created > t_end - 20.0:
                continue
            for hid, h in hspecs.items():
                if h['kind'] != 'daemon' or h['daemon']['mode'] not in LONG_LIVED:
                    continue
                if not spawning.matches(h, obj):
                    continue
                calls = by_inst.get((inc, uid, hid), [])
                live = [c for c in calls if c.t1 is None]
                if len(live) != 1:
                    last = calls[-1] if calls else None
                    why_last = str((last.extra or {}).get('reason_at_exit')) if last is not None else ''
                    sig = ('after-stop-for-mismatch' if 'FILTERS_MISMATCH' in why_last else
                           'after-stop-for-pause' if 'OPERATOR_PAUSING' in why_last else
                           'matching-object-without-daemon')
                    oc.add('C09/not-running', sig,
                           f"{meta['name']} matches daemon {hid} (mode {h['daemon']['mode']}) and is not being "
                           f"deleted, but {len(live)} instances run at quiescence; last instance: "
                           f"{(last.t0, last.t1, last.outcome, (last.extra or {}).get('reason_at_exit')) if last else None}",
                           uid=uid, hid=hid)
    # 6. ... also when the disappearance produced no event at all: an object removed while the watch was being
    #    re-established (410 -> re-listing) is simply absent from the new listing; its daemons/timers must not run on
    gone_at: dict[str, float] = {}
    for tr in run.transitions:
        if tr.after is None and tr.uid is not None and tr.before is not None:
            gone_at[tr.uid] = tr.t
    if op.alive and t_stop is None and not paused_now and not run.step_capped:
        for (inc, uid, hid), calls in by_inst.items():
            last = calls[-1]
            if inc != op.incarnation or last.t1 is not None or uid not in gone_at:
                continue
            t_g = gone_at[uid]
            if t_end - t_g < 20.0:
                continue
            noticed = any(s.etype == 'DELETED' for s in steps.get((opid, uid), []))
            if not noticed and (last.extra or {}).get('flag_at') is None:
                oc.add('C09/not-stopped', 'object-gone-unnoticed',
                       f"{hspecs[hid]['kind']} {hid} of {uid} (since t={last.t0:.2f}) still runs at t={t_end:.1f} although its object "
                       f"has been gone since t={t_g:.3f}: the operator was never handed a DELETED event for it (it vanished "
                       f"while the watch was re-established) and did not notice its absence from the new listing",
                       uid=uid, hid=hid)
    oc.probes['probe.stop-trigger-hit-live-instance'] = hit
    if hit:
        oc.nontrivial = True


def _cancelled_before(run: runner.Run, opid: str, t: float) -> bool:
    return any(e[2] == 'op-cancel' and common.op_of(e[3]) == opid and e[1] <= t for e in run.sim.trace)


def evaluate(plan: dict[str, Any]) -> Outcome:
    return common.evaluate_closed_loop(plan, oracle, stall_is_violation='C09/stall')
