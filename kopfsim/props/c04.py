"""
C04 -- Change detection is exact: own writes invisible, diffs sound and complete (closed-loop part).
"""
from __future__ import annotations

import copy
from typing import Any, Optional

from kopfsim import runner
from kopfsim.props import changes, common
from kopfsim.search import Chooser, Outcome

ID = 'C04'
TITLE = 'Change detection is exact: own writes invisible, diffs sound and complete'
LEVEL = 'exploration'
RULE = ('one or two operators (different annotation prefixes / status stanzas / finalizers, drawn storage configurations) '
        'serve the same kind with create/update/field handlers that also write results, progress and finalizers; '
        'histories of external writes of both kinds: essential (spec, other payload, labels, ordinary annotations, with '
        'nesting, empty containers, nulls, unicode keys) and non-essential (status, system metadata, foreign finalizers, '
        'annotations of another Kopf-based operator, kubectl\'s last-applied); drawn latencies; no API faults. Oracle: '
        '(a) every update cycle is explained by an external essential difference between the view at the previous close '
        'and the view now (reference essence, written independently), never by own or other operators\' writes; (b) the '
        'stored diff base equals the reference essence of the view it was taken from; (c) for every change-handler call '
        'apply(diff, old) == new, new == reference essence (or its field), old == stored base (or its field), diff empty '
        'iff old == new; (d) both operators quiesce: no writes in the final window, last-handled == final essence. '
        'Distinct = abstract trace signature; non-trivial = an update cycle ran after a non-essential or own write.')
COMPONENTS = common.COMPONENTS
ASSUMPTIONS = common.BASE_ASSUMPTIONS + [
    'the universally quantified pure-function part (all bodies, all field paths) is sampled by the workload, not decided: '
    'input-space testing of diffs.diff / DiffBaseStorage.build is outside this technique',
    'null and absent are equal in the reference (Kubernetes merge semantics)',
]
FINAL_WINDOW = 30.0
REDUCIBLE = ['actions', 'objects']


def gen_plan(ch: Chooser, tier: str) -> dict[str, Any]:
    plan = changes.gen_change_plan(ch, faults=False, restarts=False, deletes=ch.bool(0.2), subs=False,
                                   causes=('create', 'update'), max_failures=1, allow_perm=False,
                                   api_faults=False, late_start=False, edits=(3, 12), max_objects=2,
                                   horizon=ch.choice([15.0, 30.0]))
    op1 = plan['operators'][0]
    # field handlers: old/new/diff narrowed to a field
    for i, field in enumerate(ch.sample(['spec.a', 'spec', 'spec.nested', 'extra.k', 'metadata.labels', 'spec.t',
                                         'metadata.labels.tier', 'metadata.annotations.note'], ch.int(0, 3))):
        op1['handlers'].append({'id': f'f{i + 1}', 'kind': 'field', 'opts': {'field': field},
                                'script': [{'do': 'ok', 'dur': 0.0}]})
    # handlers that write results into status (own writes that must stay invisible)
    for h in op1['handlers']:
        for step in h.get('script', []):
            if step.get('do') == 'ok' and ch.bool(0.3):
                step['result'] = {'seen': ch.int(0, 3)}
    if ch.bool(0.5):
        st2 = ch.choice([
            {'progress': 'annotations', 'prefix': 'ops.example.com'},
            {'progress': 'smart', 'prefix': 'second.kopf.zalando.org', 'name': 'kopf2'},
            {'progress': 'status', 'diffbase': 'status', 'name': 'kopf2'},
            {'progress': 'annotations', 'prefix': 'ops.example.com', 'v1': False},
        ])
        if (op1['settings'].get('storage') or {}).get('prefix') == st2.get('prefix'):
            st2['prefix'] = 'third.example.org'
        settings2 = copy.deepcopy(op1['settings'])
        settings2['storage'] = st2
        settings2['finalizer'] = 'ops.example.com/finalizer'
        handlers2 = [{'id': 'x-create', 'kind': 'create', 'opts': {}, 'script': [{'do': 'ok', 'dur': ch.choice([0.0, 0.3])}]},
                     {'id': 'x-update', 'kind': 'update', 'opts': {}, 'script': [{'do': 'ok', 'dur': ch.choice([0.0, 0.3]),
                                                                                 'result': {'n': 1}}]}]
        if ch.bool(0.4):
            handlers2.append({'id': 'x-delete', 'kind': 'delete', 'opts': {}, 'script': [{'do': 'ok', 'dur': 0.0}]})
        plan['operators'].append({'id': 'op2', 'settings': settings2, 'handlers': handlers2, 'standalone': True,
                                  'lifecycle': None})
        plan['actions'].append({'t': ch.choice([0.0, 0.0, 3.0]), 'do': 'start', 'op': 'op2'})
        plan['actions'].sort(key=lambda a: a['t'])
    if len(plan['operators']) == 1 and ch.bool(0.25):
        # a prefix of the operator's own that nobody else can recognise as Kopf's (no marker is written under 'kopf.*'):
        # only the storage itself keeps its records out of the essence
        op1['settings']['storage'] = {'progress': 'annotations', 'prefix': ch.choice(['kopf.dev', 'kopf.example.com']),
                                      'v1': ch.bool(0.7)}
    if len(plan['operators']) == 1 and ch.bool(0.15):
        # a handler on a field of the status stanza: that field (and nothing else of the status) is essential then;
        # often with a diff-base kept in two places at once (as during a migration from one storage to the other)
        op1['handlers'].append({'id': 'fst', 'kind': 'field', 'opts': {'field': 'status.observed'},
                                'script': [{'do': 'ok', 'dur': 0.0}]})
        if ch.bool(0.6):
            st_ = dict(op1['settings'].get('storage') or {'progress': 'annotations'})
            st_['diffbase'] = 'multi'
            op1['settings']['storage'] = st_
        names_ = sorted({o['body']['metadata']['name'] for o in plan['objects']}) or ['w0']
        for k in range(ch.int(1, 3)):
            a = changes.fix_sub(changes.gen_edit(ch, ch.choice(names_), 700 + k, 'status'),
                                plan['kinds'][0].get('status_subresource', False))
            a['t'] = round(ch.float(1.0, plan['faults_stop']), 6)
            plan['actions'].append(a)
        plan['actions'].sort(key=lambda a: a['t'])
    if len(plan['operators']) == 1 and ch.bool(0.06):
        # a handler on the whole annotations stanza (a field path like any other)
        op1['handlers'].append({'id': 'fwa', 'kind': 'field', 'opts': {'field': 'metadata.annotations'},
                                'script': [{'do': 'ok', 'dur': 0.0}]})
    if ch.bool(0.35):
        # an object without any payload, labels or annotations: its essence is empty
        plan['objects'].append({'kind': 'widgets', 'body': {'metadata': {'name': 'bare'}}})
        for k in range(ch.int(1, 4)):
            a = changes.gen_edit(ch, 'bare', 900 + k, ch.choice(['status', 'label', 'status', 'other-kopf-annotation',
                                                                  'foreign-finalizer', 'spec']))
            a = changes.fix_sub(a, plan['kinds'][0].get('status_subresource', False))
            a['t'] = round(ch.float(1.0, plan['faults_stop']), 6)
            plan['actions'].append(a)
        plan['actions'].sort(key=lambda a: a['t'])
    plan['until'] = plan['faults_stop'] + 90.0
    return plan


def _resolve(d: Any, path: tuple[str, ...]) -> Any:
    cur = d
    for p in path:
        if not isinstance(cur, dict) or p not in cur:
            return None
        cur = cur[p]
    return cur


def _apply_diff(old: Any, diff: list[Any]) -> Any:
    """An independent reading of kopf's diff format: [(op, path, old, new), ...]."""
    result = copy.deepcopy(old)
    for item in diff or []:
        op, path, _, new = item[0], tuple(item[1]), item[2], item[3]
        if not path:
            result = copy.deepcopy(new) if op != 'remove' else None
            continue
        if result is None:
            result = {}
        cur = result
        for p in path[:-1]:
            if not isinstance(cur.get(p), dict):
                cur[p] = {}
            cur = cur[p]
        if op == 'remove':
            cur.pop(path[-1], None)
        else:
            cur[path[-1]] = copy.deepcopy(new)
    return result


WHOLE_ANNOTATIONS = 'whole-annotations-field-restores-system-and-foreign-annotations'


def _sans_annotations(x: Any) -> Any:
    if not isinstance(x, dict):
        return x
    y = copy.deepcopy(x)
    (y.get('metadata') or {}).pop('annotations', None)
    if 'metadata' in y and not y['metadata']:
        del y['metadata']
    return y


def oracle(run: runner.Run, oc: Outcome) -> None:
    plan = run.plan
    snaps = common.snapshots(run)
    steps_all = changes.extract_steps(run)
    t_end = run.sim.now
    rd = run.rdef('widgets')
    after_nonessential = 0
    for opspec in plan['operators']:
        opid = opspec['id']
        op = run.op(opid)
        if op is None:
            continue
        st = common.StorageRef(opspec)
        hspecs = common.handler_specs(run, opid)
        xs = sorted({str(h.get('opts', {}).get('field')) for h in hspecs.values()
                     if str(h.get('opts', {}).get('field') or '').startswith('status.')})
        wa = any(h.get('opts', {}).get('field') == 'metadata.annotations' for h in hspecs.values())

        def _sig(sig: str, a: Any, b: Any) -> str:
            # with a handler on the whole annotations stanza all annotations are put back into the essence
            # (known finding): told apart by the difference being confined to the annotations
            return WHOLE_ANNOTATIONS if wa and common.essence_eq(_sans_annotations(a), _sans_annotations(b)) else sig

        for (o, uid), lst in steps_all.items():
            if o != opid:
                continue
            closing_view: Optional[dict[str, Any]] = None   # the view whose essence is the current diff base
            for s in lst:
                view = snaps.get((uid, s.rv))
                if view is None or s.etype == 'DELETED':
                    continue
                deleting = (view.get('metadata') or {}).get('deletionTimestamp') is not None
                ess = common.ref_essence(view, own_prefix=st.prefix, extra_status_fields=xs)
                # (a) an update is declared exactly when the essence of the view differs from the base stored in it
                # (the base was checked against the reference essence of its own view when it was stored: (b))
                base_in_view = st.last_handled(view)
                if s.reason == 'update' and base_in_view is not None and not deleting:
                    if common.essence_eq(base_in_view, ess):
                        prev_rv = int(closing_view['metadata']['resourceVersion']) if closing_view is not None else 0
                        who = sorted({t.actor for t in run.transitions if t.uid == uid and t.after is not None
                                      and prev_rv < int(t.after['metadata']['resourceVersion']) <= int(s.rv)})
                        oc.add('C04/self-triggered', WHOLE_ANNOTATIONS if wa else 'update-without-essential-change',
                               f"{opid}: {uid}@{s.rv} was classified as an update although nothing essential differs from "
                               f"the state recorded as handled; writers since the last close: {who}", uid=uid, op=opid)
                    elif closing_view is not None:
                        between = [t for t in run.transitions if t.uid == uid and t.after is not None and t.before is not None
                                   and int(closing_view['metadata']['resourceVersion']) <
                                   int(t.after['metadata']['resourceVersion']) <= int(s.rv)]
                        if any(common.is_operator_actor(run, t.actor) or
                               common.essence_eq(common.ref_essence(t.before, own_prefix=st.prefix, extra_status_fields=xs), common.ref_essence(t.after, own_prefix=st.prefix, extra_status_fields=xs)) for t in between):
                            after_nonessential += 1
                if s.reason == 'noop' and base_in_view is not None and not deleting:
                    if not common.essence_eq(base_in_view, ess):
                        oc.add('C04/change-missed', _sig('noop-despite-essential-change', base_in_view, ess),
                               f"{opid}: {uid}@{s.rv} was classified as a no-op although its essence {ess!r} differs from the "
                               f"state recorded as handled {base_in_view!r}", uid=uid, op=opid)
                # (c) exactness of old/new/diff
                base = st.last_handled(view)
                for c in s.calls:
                    if c.hkind not in ('update', 'field', 'create', 'resume') or c.diff is None and c.new is None:
                        continue
                    h = hspecs.get(c.hid, {})
                    field = h.get('opts', {}).get('field') if c.hkind == 'field' else None
                    path = tuple(field.split('.')) if field else ()
                    want_new = _resolve(ess, path) if path else ess
                    want_old = (_resolve(base, path) if path else base) if base is not None else None
                    if c.reason in ('update',) or c.hkind == 'field' and c.reason == 'update':
                        if not common.essence_eq(c.new, want_new):
                            oc.add('C04/diff-inexact', _sig('new-is-not-the-essence', c.new, want_new) if not path else WHOLE_ANNOTATIONS if field == 'metadata.annotations' else 'new-is-not-the-essence',
                                   f"{opid}: handler {c.hid} on {uid}@{s.rv}: new={c.new!r} but the reference essence"
                                   f"{' at ' + field if field else ''} is {want_new!r}", uid=uid, hid=c.hid)
                        if base is not None and not common.essence_eq(c.old, want_old):
                            oc.add('C04/diff-inexact', _sig('old-is-not-the-base', c.old, want_old) if not path else WHOLE_ANNOTATIONS if field == 'metadata.annotations' else 'old-is-not-the-base',
                                   f"{opid}: handler {c.hid} on {uid}@{s.rv}: old={c.old!r} but the stored base"
                                   f"{' at ' + field if field else ''} is {want_old!r}", uid=uid, hid=c.hid)
                        applied = _apply_diff(c.old, c.diff or [])
                        if not common.essence_eq(applied, c.new):
                            oc.add('C04/diff-inexact', 'diff-does-not-lead-from-old-to-new',
                                   f"{opid}: handler {c.hid} on {uid}@{s.rv}: applying diff={c.diff!r} to old={c.old!r} gives "
                                   f"{applied!r}, not new={c.new!r}", uid=uid, hid=c.hid)
                        if not (c.diff or []) and not common.essence_eq(c.old, c.new):
                            oc.add('C04/diff-inexact', 'empty-diff-for-different-values',
                                   f"{opid}: handler {c.hid} on {uid}@{s.rv}: empty diff but old={c.old!r} != new={c.new!r}",
                                   uid=uid, hid=c.hid)
                # (b) the stored base is the reference essence of the view it was taken from
                for w in s.writes:
                    if w.after is None:
                        continue
                    lh_b, lh_a = st.last_handled(w.before), st.last_handled(w.after)
                    if lh_a is not None and lh_a != lh_b:
                        if not common.essence_eq(lh_a, ess):
                            oc.add('C04/diffbase-not-essence', _sig('stored-base-differs', lh_a, ess),
                                   f"{opid}: the last-handled state stored for {uid} from the view @{s.rv} is {lh_a!r} but the "
                                   f"reference essence of that view is {ess!r}", uid=uid, op=opid)
                        closing_view = view
        # (d) quiescence of this operator
        if op.alive and not run.step_capped:
            late = [t for t in run.transitions if common.op_of(t.actor) == opid and t.t > t_end - FINAL_WINDOW
                    and t.rkey == rd.key]
            if late:
                oc.add('C04/ping-pong', 'writes-in-final-window',
                       f"{opid} made {len(late)} writes to {sorted({t.name for t in late})} in the last {FINAL_WINDOW:.0f}s of a "
                       f"run whose last external change was {t_end - plan['faults_stop']:.0f}s ago", op=opid)
            has_cu = any(h['kind'] in ('create', 'update') for h in hspecs.values())
            for obj in run.cluster.list(rd, None):
                if obj['metadata'].get('deletionTimestamp') is not None or not has_cu:
                    continue
                lh = st.last_handled(obj)
                if not common.essence_eq(lh, common.ref_essence(obj, own_prefix=st.prefix, extra_status_fields=xs)):
                    oc.add('C04/change-missed', _sig('last-handled-stale-at-quiescence', lh, common.ref_essence(obj, own_prefix=st.prefix, extra_status_fields=xs)),
                           f"{opid}: {obj['metadata']['name']}: last-handled {lh!r} differs from the final essence "
                           f"{common.ref_essence(obj, own_prefix=st.prefix, extra_status_fields=xs)!r}", op=opid, uid=obj['metadata']['uid'])
    if run.step_capped:
        oc.add('C04/ping-pong', 'step-cap', f"the run hit the scheduler's step cap at t={t_end:.1f}: the operators never settle")
    oc.probes['probe.update-after-nonessential-write'] = after_nonessential
    oc.probes['probe.operators'] = len(plan['operators'])
    if after_nonessential:
        oc.nontrivial = True


def evaluate(plan: dict[str, Any]) -> Outcome:
    return common.evaluate_closed_loop(plan, oracle)
