"""
C15 -- Exactly the handlers whose declared criteria hold are invoked (closed-loop part).
"""
from __future__ import annotations

from typing import Any, Optional

from kopfsim import runner
from kopfsim.props import changes, common
from kopfsim.search import Chooser, Outcome

ID = 'C15'
TITLE = 'Exactly the handlers whose declared criteria hold are invoked'
LEVEL = 'exploration'
RULE = ('one operator with 3-8 create/update/raw-event handlers whose criteria are drawn from a small alphabet: labels and '
        'annotations (value / present / absent / callback), field with value (literal / present / absent / callback / '
        'default), old= and new= for update handlers, a whole-body `when` callback, and one function registered twice '
        'under one id; 2-3 objects driven through histories over the same alphabet (labels, annotations, spec.a, '
        'spec.b, spec.flag set / changed / removed), in half of the runs all handlers share a label criterion that one '
        'object never satisfies. Oracle, an executable reading of docs/filters.rst written independently: (soundness) '
        'every call satisfies the criteria of its handler on the body/old/new it was given; (completeness) over a '
        'handling cycle without foreign writes in between, the set of handlers that ran equals the reference selection, '
        'each once; raw-event handlers per event; (stealth) an object that never satisfies the metadata/when criteria '
        'of any handler never receives a write from the operator. Distinct = abstract trace signature; non-trivial = '
        'at least one handler was selected and one was filtered out in the same cycle.')
COMPONENTS = common.COMPONENTS
ASSUMPTIONS = common.BASE_ASSUMPTIONS + [
    'the bounded-exhaustive product of criteria x states of the quantifier is sampled, not enumerated: the matching '
    'predicate is a pure function and its enumeration is outside this technique',
    'handlers never fail here, so a cycle invokes each selected handler exactly once',
]
REDUCIBLE = ['actions', 'objects']
PRESENT, ABSENT = '__PRESENT__', '__ABSENT__'


def _gen_meta_crit(ch: Chooser, key: str, values: list[str]) -> Optional[dict[str, Any]]:
    kind = ch.weighted([('none', 5), ('value', 2), ('present', 1), ('absent', 1), ('callback', 1)])
    if kind == 'none':
        return None
    if kind == 'value':
        return {key: ch.choice(values)}
    if kind == 'present':
        return {key: PRESENT}
    if kind == 'absent':
        return {key: ABSENT}
    return {key: {'__cb__': True, 'in': ch.sample(values + [None], 2)}}


def _gen_value_crit(ch: Chooser) -> Any:
    kind = ch.weighted([('value', 3), ('present', 1), ('absent', 1), ('callback', 1)])
    if kind == 'value':
        return ch.choice([0, 1, 2])
    if kind == 'present':
        return PRESENT
    if kind == 'absent':
        return ABSENT
    return {'__cb__': True, 'in': ch.sample([0, 1, 2, None], 2)}


def gen_plan(ch: Chooser, tier: str) -> dict[str, Any]:
    settings = common.base_settings(ch)
    handlers: list[dict[str, Any]] = []
    common_label = {'watch': 'yes'} if ch.bool(0.5) else None
    for i in range(ch.int(3, 8)):
        kind = ch.weighted([('create', 2), ('update', 4), ('event', 2)])
        opts: dict[str, Any] = {}
        lab = _gen_meta_crit(ch, 'tier', ['a', 'b'])
        if lab or common_label:
            opts['labels'] = dict(common_label or {}, **(lab or {}))
        ann = _gen_meta_crit(ch, 'note', ['x', 'y'])
        if ann:
            opts['annotations'] = ann
        if ch.bool(0.25):
            opts['when'] = ch.choice([{'field': 'spec.flag', 'eq': True}, {'field': 'spec.flag', 'present': False},
                                      {'const': False}])
        if ch.bool(0.5):
            opts['field'] = ch.choice(['spec.a', 'spec.b', 'spec'])
            if kind == 'create' and ch.bool(0.3):
                # a field outside the default essence (the status stanza), asked for by a non-update handler only
                opts['field'] = 'status.ph'
            if opts['field'] != 'spec':
                how = ch.weighted([('default', 2), ('value', 3), ('oldnew', 3 if kind == 'update' else 0)])
                if how == 'value':
                    opts['value'] = _gen_value_crit(ch)
                elif how == 'oldnew':
                    if ch.bool(0.7):
                        opts['old'] = _gen_value_crit(ch)
                    if ch.bool(0.7) or 'old' not in opts:
                        opts['new'] = _gen_value_crit(ch)
        h = {'id': f'{kind[0]}{i + 1}', 'kind': kind, 'opts': opts}
        if kind != 'event':
            h['script'] = [{'do': 'ok', 'dur': 0.0}]
        handlers.append(h)
        if ch.bool(0.15) and kind != 'event':
            handlers.append(dict(h, fn=h['id']))   # the same function registered twice under the same id
    names = ['w0', 'w1', 'w2'][:ch.int(2, 3)]
    objects = []
    actions: list[dict[str, Any]] = [{'t': 0.0, 'do': 'start', 'op': 'op1'}]
    horizon = 20.0

    def body(name: str, stealth: bool) -> dict[str, Any]:
        labels: dict[str, Any] = {}
        if not stealth and ch.bool(0.8):
            labels['watch'] = 'yes'
        if ch.bool(0.6):
            labels['tier'] = ch.choice(['a', 'b'])
        anns = {'note': ch.choice(['x', 'y'])} if ch.bool(0.4) else {}
        spec: dict[str, Any] = {}
        for k in ('a', 'b'):
            if ch.bool(0.6):
                spec[k] = ch.choice([0, 1, 2])
        if ch.bool(0.5):
            spec['flag'] = ch.bool()
        meta: dict[str, Any] = {'name': name}
        if labels:
            meta['labels'] = labels
        if anns:
            meta['annotations'] = anns
        b_: dict[str, Any] = {'metadata': meta, 'spec': spec}
        if ch.bool(0.5):
            b_['status'] = {'ph': ch.choice([0, 1, 2])}
        return b_

    for k, name in enumerate(names):
        b = body(name, stealth=(k == 0 and common_label is not None))
        if ch.bool(0.6):
            objects.append({'kind': 'widgets', 'body': b})
        else:
            actions.append({'t': round(ch.float(0.2, 5.0), 6), 'do': 'create', 'kind': 'widgets', 'body': b})
    for _ in range(ch.int(3, 12)):
        name = ch.choice(names)
        what = ch.weighted([('a', 3), ('b', 3), ('flag', 1.5), ('tier', 2), ('note', 1.5), ('watch', 1.0), ('two', 1.5),
                            ('status', 1.0)])
        patch: dict[str, Any]
        if what in ('a', 'b'):
            patch = {'spec': {what: ch.choice([0, 1, 2, None])}}
        elif what == 'flag':
            patch = {'spec': {'flag': ch.choice([True, False, None])}}
        elif what == 'status':
            actions.append({'t': round(ch.float(1.0, horizon), 6), 'do': 'patch', 'name': name, 'actor': 'controller',
                            'patch': {'status': {'ph': ch.choice([0, 1, 2, None])}}})
            continue
        elif what == 'tier':
            patch = {'metadata': {'labels': {'tier': ch.choice(['a', 'b', None])}}}
        elif what == 'note':
            patch = {'metadata': {'annotations': {'note': ch.choice(['x', 'y', None])}}}
        elif what == 'watch':
            if name == names[0] and common_label is not None:
                continue
            patch = {'metadata': {'labels': {'watch': ch.choice(['yes', None])}}}
        else:
            patch = {'spec': {'a': ch.choice([0, 1, 2, None]), 'b': ch.choice([0, 1, 2, None])}}
        actions.append({'t': round(ch.float(1.0, horizon), 6), 'do': 'patch', 'name': name, 'patch': patch})
    actions.sort(key=lambda a: a['t'])
    return {
        'horizon': horizon, 'until': horizon + 30.0, 'faults_stop': horizon, 'stealth_name': names[0] if common_label else None,
        'kinds': [{'plural': 'widgets'}], 'objects': objects, 'actions': actions,
        'operators': [{'id': 'op1', 'settings': settings, 'handlers': handlers, 'standalone': True,
                       'lifecycle': ch.choice([None, 'all_at_once', 'one_by_one'])}],
        'tie_random': ch.bool(0.3),
        'net': {'latency_seed': ch.int(0, 1 << 30), 'lat_lo': 0.001, 'lat_hi': ch.choice([0.005, 0.05]),
                'watch_lat_lo': 0.001, 'watch_lat_hi': ch.choice([0.005, 0.05]), 'rules': []},
    }


# ---------------------------------------------------------------- the reference reading of docs/filters.rst
def _value_ok(crit: Any, val: Any) -> bool:
    if crit == PRESENT:
        return val is not None
    if crit == ABSENT:
        return val is None
    if isinstance(crit, dict) and crit.get('__cb__'):
        if 'in' in crit:
            return val in crit['in']
        if 'eq' in crit:
            return bool(val == crit['eq'])
        return bool(val)
    return bool(val == crit)


def _meta_ok(crits: Optional[dict[str, Any]], meta: dict[str, Any]) -> bool:
    for k, crit in (crits or {}).items():
        if crit == PRESENT:
            if k not in meta:
                return False
        elif crit == ABSENT:
            if k in meta:
                return False
        elif not _value_ok(crit, meta.get(k)):
            return False
    return True


def _when_ok(expr: Optional[dict[str, Any]], body: dict[str, Any]) -> bool:
    if expr is None:
        return True
    if 'const' in expr:
        return bool(expr['const'])
    val = runner.resolve_field(body, expr['field'], None)
    if 'eq' in expr:
        return bool(val == expr['eq'])
    if 'present' in expr:
        return (val is not None) == bool(expr['present'])
    return bool(val)


def static_ok(h: dict[str, Any], body: dict[str, Any]) -> bool:
    """Criteria that look at the current body only: labels, annotations, when."""
    o = h.get('opts', {})
    meta = body.get('metadata') or {}
    return _meta_ok(o.get('labels'), meta.get('labels') or {}) and \
        _meta_ok(o.get('annotations'), meta.get('annotations') or {}) and _when_ok(o.get('when'), body)


def ref_match(h: dict[str, Any], body: dict[str, Any], old: Any, new: Any, updating: bool) -> bool:
    o = h.get('opts', {})
    if not static_ok(h, body):
        return False
    field = o.get('field')
    if field is None:
        return True
    if not updating:
        cur = runner.resolve_field(body, field, None)
        return _value_ok(o.get('value', PRESENT), cur)
    v_old = runner.resolve_field(old, field, None) if old is not None else None
    v_new = runner.resolve_field(new, field, None) if new is not None else None
    if common.essence_eq(v_old, v_new):
        return False     # the field is not affected
    if 'old' in o or 'new' in o:
        return ('old' not in o or _value_ok(o['old'], v_old)) and ('new' not in o or _value_ok(o['new'], v_new))
    crit = o.get('value', PRESENT)
    return _value_ok(crit, v_old) or _value_ok(crit, v_new)


def oracle(run: runner.Run, oc: Outcome) -> None:
    opid = 'op1'
    op = run.op(opid)
    if op is None:
        return
    plan = run.plan
    spec = common.spec_of(run, opid)
    st = common.StorageRef(spec)
    hlist = spec['handlers']
    hspecs: dict[str, dict[str, Any]] = {}
    for h in hlist:
        hspecs.setdefault(h['id'], h)
    snaps = common.snapshots(run)
    steps = changes.extract_steps(run)
    mixed = 0
    for (o, uid), lst in steps.items():
        # ---- soundness per call; raw-event handlers per event ----
        for s in lst:
            view = snaps.get((uid, s.rv))
            if view is None:
                continue
            for c in s.calls:
                h = hspecs.get(c.hid)
                if h is None or c.body is None:
                    continue
                updating = c.hkind == 'update'
                if updating and h.get('opts', {}).get('field') is not None:
                    ok = _ref_match_reduced(h, c.body, c.old, c.new)   # old/new come narrowed to the field
                elif updating:
                    ok = static_ok(h, c.body)
                else:
                    ok = ref_match(h, c.body, None, None, False)
                if not ok:
                    o_ = h.get('opts', {})
                    accepts_absent = c.hkind == 'create' and o_.get('field') is not None and static_ok(h, c.body) \
                        and _value_ok(o_.get('value', PRESENT), None)
                    oc.add('C15/unsound', 'create-value-criterion-met-by-the-absent-old-state' if accepts_absent else c.hkind,
                           f"handler {c.hid} ({h.get('opts')}) was invoked for {uid}@{s.rv} although its criteria do not hold "
                           f"(labels={c.body.get('metadata', {}).get('labels')}, annotations="
                           f"{ {k: v for k, v in (c.body.get('metadata', {}).get('annotations') or {}).items() if '/' not in k} }, "
                           f"spec={c.body.get('spec')}, old={c.old!r}, new={c.new!r})", uid=uid, hid=c.hid)
            if s.how == 'returned' and s.etype != 'DELETED':
                want_ev = {h['id'] for h in hlist if h['kind'] == 'event' and ref_match(h, view, None, None, False)}
                got_ev = [c.hid for c in s.calls if c.hkind == 'event']
                if set(got_ev) != want_ev or len(got_ev) != len(set(got_ev)):
                    oc.add('C15/incomplete', 'event',
                           f"raw-event handlers invoked for {uid}@{s.rv}: {sorted(got_ev)}; the criteria select {sorted(want_ev)}",
                           uid=uid)
        # ---- completeness per cycle ----
        for cyc in changes.segment_cycles(st, lst, snaps, uid):
            reason = cyc[0].reason
            if reason not in ('create', 'update') or any(s.how != 'returned' for s in cyc):
                continue
            # (steps held back by the consistency barrier look at an outdated view and decide nothing)
            acting = [s for s in cyc if s.writes or any(c.hkind in common.CHANGE_KINDS for c in s.calls)]
            if not acting:
                continue
            cyc = cyc[cyc.index(acting[0]):]
            v0 = snaps.get((uid, cyc[0].rv))
            v1 = snaps.get((uid, cyc[-1].rv))
            if v0 is None or v1 is None:
                continue
            if not common.essence_eq(common.ref_essence(v0), common.ref_essence(v1)):
                continue   # a foreign essential write came in the middle of the cycle
            if st.records(v0):
                continue   # the cycle had begun before this view (its first steps saw another state)
            closed = any(w.after is not None and st.last_handled(w.after) != st.last_handled(w.before)
                         for s in cyc for w in s.writes)
            if not closed:
                continue
            old = st.last_handled(v0) if reason == 'update' else None
            new = common.ref_essence(v0)
            want = {h['id'] for h in hlist if h['kind'] == reason and ref_match(h, v0, old, new, reason == 'update')}
            calls = [c.hid for s in cyc for c in s.calls if c.hkind == reason]
            extra = set(calls) - want
            only_absent = bool(extra) and not (want - set(calls)) and reason == 'create' and all(
                hspecs[x].get('opts', {}).get('field') is not None and static_ok(hspecs[x], v0)
                and _value_ok(hspecs[x]['opts'].get('value', PRESENT), None) for x in extra)
            if set(calls) != want:
                oc.add('C15/incomplete', 'create-value-criterion-met-by-the-absent-old-state' if only_absent else reason,
                       f"{reason} cycle of {uid} (view @{cyc[0].rv}, old={old!r} -> new={new!r}): handlers invoked "
                       f"{sorted(set(calls))}; the criteria select {sorted(want)}", uid=uid)
            dup = sorted({x for x in calls if calls.count(x) > 1})
            if dup:
                oc.add('C15/invoked-twice', reason,
                       f"{reason} cycle of {uid} (view @{cyc[0].rv}): handlers {dup} were invoked more than once", uid=uid)
            others = [h for h in hlist if h['kind'] == reason and h['id'] not in want]
            if want and others:
                mixed += 1
    # ---- stealth ----
    rd = run.rdef('widgets')
    uids = {t.uid for t in run.transitions if t.rkey == rd.key}
    for uid in uids:
        views = [t.after for t in run.transitions if t.uid == uid and t.after is not None]
        if not views:
            continue
        never = all(not static_ok(h, v) for v in views for h in hlist)
        if never:
            mine = [t for t in run.transitions if t.uid == uid and common.op_of(t.actor) == opid]
            oc.probes['probe.stealth-objects'] = oc.probes.get('probe.stealth-objects', 0) + 1
            if mine:
                after = mine[0].after or {}
                oc.add('C15/not-stealth', 'write-to-unmatched-object',
                       f"{views[0]['metadata']['name']} never satisfied the label/annotation/when criteria of any handler, "
                       f"yet the operator wrote to it {len(mine)} time(s); first: annotations="
                       f"{(after.get('metadata') or {}).get('annotations')} finalizers={(after.get('metadata') or {}).get('finalizers')}",
                       uid=uid)
    oc.probes['probe.cycles-with-selected-and-filtered-handlers'] = mixed
    if mixed:
        oc.nontrivial = True


def _ref_match_reduced(h: dict[str, Any], body: dict[str, Any], old: Any, new: Any) -> bool:
    """Update handlers with field= get old/new narrowed to that field: compare the narrowed values directly."""
    o = h.get('opts', {})
    if not static_ok(h, body):
        return False
    if common.essence_eq(old, new):
        return False
    if 'old' in o or 'new' in o:
        return ('old' not in o or _value_ok(o['old'], old)) and ('new' not in o or _value_ok(o['new'], new))
    crit = o.get('value', PRESENT)
    return _value_ok(crit, old) or _value_ok(crit, new)


def evaluate(plan: dict[str, Any]) -> Outcome:
    return common.evaluate_closed_loop(plan, oracle)
