"""
C08 -- Accumulated patches are delivered completely, atomically and exactly once.

Harness A (fault enumeration): the real application.apply()/patching.patch_obj() against the
FakeCluster for a generated Patch; a foreign writer is placed at EVERY position relative to the
requests and every request is answered normally / 404 / 422 -- enumerated exhaustively per patch.
Harness B (exploration): the full operator with slow handlers, daemons and timers returning
results, while a foreign actor deletes the object and re-creates one under the same name.
"""
from __future__ import annotations

import asyncio
import copy
import functools
from typing import Any, Optional

from kopfsim import cluster as cl
from kopfsim import core, net, runner
from kopfsim.props import changes, common, spawning
from kopfsim.search import Chooser, Outcome

ID = 'C08'
TITLE = 'Accumulated patches are delivered completely, atomically and exactly once'
LEVEL = 'fault_enumeration'
RULE = ('A: per generated patch (merge fields in metadata/spec/status x transformation functions: finalizer add/remove, '
        'unique-token list appends in spec and status; with and without a status subresource) the product '
        '{foreign write before request k, k = 0..n} x {request i answered normally / 404 / 422, i = 1..n} is enumerated '
        'completely; remaining transformations are fed into the next patch_obj call as processing does. '
        'B: closed loop with delete-and-recreate under the same name at drawn instants relative to running handlers, '
        'daemons and timers; every write is attributed to the uid its issuing task works for. '
        'Distinct = (patch shape, position, override) cases resp. abstract trace signatures; non-trivial = a conflict, '
        'a 404 or a foreign write between requests actually happened, resp. a name was reused while a handler ran.')
COMPONENTS = common.COMPONENTS
ASSUMPTIONS = common.BASE_ASSUMPTIONS + [
    'the patch content is sampled; the fault positions per patch are enumerated exhaustively',
    'the foreign writer touches fields disjoint from the patch, plus the shared lists (to expose lost updates)',
]
FIN = 'kopf.zalando.org/KopfFinalizerMarker'


# --------------------------------------------------------------------------------------
# Harness A
# --------------------------------------------------------------------------------------
def gen_patch_case(ch: Chooser) -> dict[str, Any]:
    case: dict[str, Any] = {'status_subresource': ch.bool(), 'merge': {}, 'fns': []}
    if ch.bool(0.7):
        case['merge'].setdefault('metadata', {}).setdefault('annotations', {})['kopf.zalando.org/progress'] = f'p{ch.int(0, 99)}'
    if ch.bool(0.4):
        case['merge'].setdefault('metadata', {}).setdefault('labels', {})['seen'] = 'yes'
    if ch.bool(0.4):
        case['merge'].setdefault('spec', {})['handled'] = ch.int(1, 9)
    if ch.bool(0.6):
        case['merge'].setdefault('status', {})['result'] = {'v': ch.int(1, 9), 'gone': None}
    if ch.bool(0.2):
        case['merge'].setdefault('metadata', {}).setdefault('annotations', {})['kopf.zalando.org/old'] = None
    kinds = ch.subset(['fin-add', 'fin-remove', 'spec-append', 'status-append'], 0.45)
    if not case['merge'] and not kinds:
        kinds = ['fin-add']
    for k in kinds:
        case['fns'].append(k)
    case['initial_finalizers'] = ch.choice([[], [FIN], ['other.example.com/a', FIN], ['other.example.com/a']])
    case['foreign'] = ch.choice(['finalizer', 'spec-list', 'status-list', 'label', 'delete'])
    case['no_status'] = ch.bool(0.3)   # a fresh object: no status stanza yet (a transformation may have to create it)
    return case


def gen_plan(ch: Chooser, tier: str) -> dict[str, Any]:
    if ch.bool(0.55):
        return {'harness': 'A', 'case': gen_patch_case(ch), 'until': 30.0}
    plan = gen_plan_b(ch)
    plan['harness'] = 'B'
    return plan


def _make_fns(kinds: list[str]) -> list[Any]:
    from kopf._cogs.structs import finalizers
    fns: list[Any] = []
    for k in kinds:
        if k == 'fin-add':
            fns.append(functools.partial(finalizers.block_deletion, finalizer=FIN))
        elif k == 'fin-remove':
            fns.append(functools.partial(finalizers.allow_deletion, finalizer=FIN))
        elif k == 'spec-append':
            def f1(body: dict[str, Any]) -> None:
                body.setdefault('spec', {}).setdefault('items', []).append('kopf-token-spec')
            fns.append(f1)
        elif k == 'status-append':
            def f2(body: dict[str, Any]) -> None:
                body.setdefault('status', {}).setdefault('items', []).append('kopf-token-status')
            fns.append(f2)
    return fns


def _run_case(case: dict[str, Any], position: int, override: Optional[tuple[int, int]]) -> dict[str, Any]:
    """One execution of apply()+follow-ups against a fresh cluster. Returns observations."""
    import kopf
    from kopf._cogs.clients import auth, patching
    from kopf._cogs.structs import bodies, patches, credentials
    from kopf._cogs.structs import references
    sim = core.Sim(seed=1)
    runner._setup_logging()
    core.begin_run(sim)
    core.install_seams()
    cluster = cl.FakeCluster(sim)
    rd = cl.ResourceDef('sim.dev', 'v1', 'widgets', 'Widget', status_subresource=case['status_subresource'])
    cluster.ensure_namespace('default')
    cluster.install_crd(rd)
    body0: dict[str, Any] = {'metadata': {'name': 'w', 'annotations': {'kopf.zalando.org/old': 'x', 'user/note': 'keep'}},
                             'spec': {'a': 1, 'items': ['u0']}}
    if case['initial_finalizers']:
        body0['metadata']['finalizers'] = list(case['initial_finalizers'])
    cluster.create(rd, 'default', body0, actor='user')
    if case.get('no_status'):
        pass
    elif case['status_subresource']:
        cluster.patch(rd, 'default', 'w', {'status': {'items': ['s0'], 'result': {'gone': 1}}},
                      content_type='application/merge-patch+json', subresource='status', actor='user')
    else:
        cluster.patch(rd, 'default', 'w', {'status': {'items': ['s0'], 'result': {'gone': 1}}},
                      content_type='application/merge-patch+json', actor='user')
    rules = []
    if override is not None:
        rules.append({'match': {'method': 'PATCH', 'kind': 'widgets'}, 'nth': override[0],
                      'action': {'kind': 'status', 'status': override[1]}})
    network = net.Network(sim, cluster, rules=rules, lat_lo=0.001, lat_hi=0.002)
    obs: dict[str, Any] = {'requests': [], 'foreign_done': False, 'results': []}
    arrived = {'n': 0}

    def foreign() -> None:
        if obs['foreign_done']:
            return
        obs['foreign_done'] = True
        kind = case['foreign']
        if kind == 'finalizer':
            cluster.replace_fields(rd, 'default', 'w', lambda o: o['metadata'].setdefault('finalizers', []).insert(0, 'other.example.com/z'), actor='foreign')
        elif kind == 'spec-list':
            cluster.replace_fields(rd, 'default', 'w', lambda o: o['spec'].setdefault('items', []).append('foreign-token'), actor='foreign')
        elif kind == 'status-list':
            cluster.replace_fields(rd, 'default', 'w', lambda o: o.setdefault('status', {}).setdefault('items', []).append('foreign-token'),
                                   actor='foreign', subresource='status' if case['status_subresource'] else None)
        elif kind == 'label':
            cluster.replace_fields(rd, 'default', 'w', lambda o: o['metadata'].setdefault('labels', {}).update(foreign='1'), actor='foreign')
        elif kind == 'delete':
            cluster.replace_fields(rd, 'default', 'w', lambda o: o['metadata'].pop('finalizers', None), actor='foreign')
            cluster.delete(rd, 'default', 'w', actor='foreign')

    def on_arrive(req: net.Request) -> None:
        if req.method == 'PATCH':
            if arrived['n'] == position:
                foreign()
            arrived['n'] += 1
            obs['requests'].append((req.path, req.attrs.get('ctype'), req.attrs.get('sub')))
    network.arrive_hooks.append(on_arrive)

    loop = sim.new_loop('direct')
    resource = references.Resource(group='sim.dev', version='v1', plural='widgets', kind='Widget', namespaced=True,
                                   subresources=frozenset(['status']) if case['status_subresource'] else frozenset(),
                                   verbs=frozenset(['list', 'watch', 'patch']))
    settings = kopf.OperatorSettings()
    settings.networking.error_backoffs = [0.1]
    import logging
    logger = logging.getLogger('kopf.sim.c08')

    async def main() -> None:
        vault = credentials.Vault()
        session = net.FakeSession(network, 'op1#1', loop)
        await vault.populate({'sim': kopf.AiohttpSession(server='http://sim', aiohttp_session=session)})  # type: ignore[arg-type]
        auth.vault_var.set(vault)
        raw = cluster.get(rd, 'default', 'w')
        body = bodies.Body(copy.deepcopy(raw))
        patch = patches.Patch(copy.deepcopy(case['merge']), body=body, fns=_make_fns(case['fns']))
        remaining: Optional[patches.Patch] = patch
        for attempt in range(4):
            if not remaining:
                break
            result, remaining = await patching.patch_obj(
                settings=settings, resource=resource, namespace='default', name='w', patch=remaining, logger=logger)
            obs['results'].append(('none' if result is None else 'body', bool(remaining)))
            if result is None and not remaining:
                break  # the object is gone
            if remaining:
                # the next cycle: the freshest body arrives with the next event
                fresh = cluster.get(rd, 'default', 'w')
                if fresh is None:
                    break
                remaining = patches.Patch(remaining, body=bodies.Body(copy.deepcopy(fresh)))
        if position >= arrived['n']:
            foreign()   # "after the last request"

    task = loop.create_task(main())
    try:
        sim.run(until=30.0, max_steps=20000)
        obs['error'] = repr(task.exception()) if task.done() and not task.cancelled() and task.exception() else None
        obs['done'] = task.done()
        obs['final'] = copy.deepcopy(cluster.get(rd, 'default', 'w'))
        obs['transitions'] = len(cluster.request_log)
    finally:
        try:
            for t in asyncio.all_tasks(loop):
                t.cancel()
            for _ in range(20):
                loop.step()
            loop._ready.clear()
            loop._scheduled.clear()
            loop.close()
        except BaseException:
            pass
        core.end_run()
    return obs


def evaluate_a(plan: dict[str, Any]) -> Outcome:
    oc = Outcome()
    case = plan['case']
    # how many requests does this patch make without interference?
    base = _run_case(case, position=99, override=None)
    n = len(base['requests'])
    cases = 0
    interesting = 0
    sigs = []
    for position in list(range(n + 1)):
        for override in [None] + [(i, code) for i in range(1, n + 1) for code in (404, 422)]:
            obs = _run_case(case, position, override)
            cases += 1
            label = f"pos={position},ovr={override}"
            final = obs['final']
            if obs['error'] or not obs['done']:
                # an injected 422 on a *merge* patch is not a conflict kopf handles: it escalates, legitimately
                if override is not None and override[1] == 422:
                    ctypes = [r[1] for r in obs['requests']]
                    idx = override[0] - 1
                    if idx < len(ctypes) and ctypes[idx] == 'merge':
                        continue
                oc.add('C08/patching-failed', 'error', f"{label}: patching ended with {obs['error']} (done={obs['done']})",
                       case=case)
                continue
            got_404 = override is not None and override[1] == 404
            deleted = final is None
            if got_404 or deleted:
                interesting += 1
                continue  # a vanished object ends patching quietly; nothing to compare
            assert final is not None
            meta = final.get('metadata', {})
            fins = meta.get('finalizers', [])
            spec_items = final.get('spec', {}).get('items', [])
            status_items = (final.get('status') or {}).get('items', [])
            # dict part delivered completely
            want_merge = cl.merge_patch({}, case['merge'])
            for path, want in _leaves(case['merge']):
                have = _resolve(final, path)
                if want is None and have is not None:
                    oc.add('C08/merge-lost', 'not-deleted', f"{label}: field {'.'.join(path)} should be removed", case=case)
                if want is not None and have != want:
                    oc.add('C08/merge-lost', 'not-written', f"{label}: field {'.'.join(path)} = {have!r}, wanted {want!r}",
                           case=case)
            # transformations: exactly once
            if 'spec-append' in case['fns'] and spec_items.count('kopf-token-spec') != 1:
                # known shape: body ops landed, then the separate status JSON-patch conflicted, and ALL
                # transformation functions (incl. the already applied body ones) were carried over
                ctypes = [(r[1], r[2]) for r in obs['requests']]
                dup_after_status_conflict = (
                    spec_items.count('kopf-token-spec') == 2 and case['status_subresource']
                    and ('json', None) in ctypes and ctypes.count(('json', 'status')) >= 1
                    and ctypes.index(('json', None)) < ctypes.index(('json', 'status')))
                oc.add('C08/fn-not-once',
                       'body-fn-duplicated-after-status-conflict' if dup_after_status_conflict else 'spec-append',
                       f"{label}: spec.items={spec_items} requests={ctypes}", case=case)
            if 'status-append' in case['fns'] and status_items.count('kopf-token-status') != 1:
                oc.add('C08/fn-not-once', 'status-append', f"{label}: status.items={status_items}", case=case)
            if 'fin-remove' in case['fns'] and 'fin-add' not in case['fns'] and FIN in fins:
                oc.add('C08/fn-not-once', 'fin-remove', f"{label}: finalizers={fins}", case=case)
            if 'fin-add' in case['fns'] and 'fin-remove' not in case['fns'] and fins.count(FIN) != 1:
                oc.add('C08/fn-not-once', 'fin-add', f"{label}: finalizers={fins}", case=case)
            # the foreign writer's change survives (nothing computed from a stale state was written over it)
            if obs['foreign_done']:
                interesting += 1
                fk = case['foreign']
                if fk == 'finalizer' and 'other.example.com/z' not in fins:
                    oc.add('C08/lost-update', 'foreign-finalizer', f"{label}: finalizers={fins}", case=case)
                if fk == 'spec-list' and spec_items.count('foreign-token') != 1:
                    oc.add('C08/lost-update', 'foreign-spec-item', f"{label}: spec.items={spec_items}", case=case)
                if fk == 'status-list' and status_items.count('foreign-token') != 1:
                    oc.add('C08/lost-update', 'foreign-status-item', f"{label}: status.items={status_items}", case=case)
                if fk == 'label' and (meta.get('labels') or {}).get('foreign') != '1':
                    oc.add('C08/lost-update', 'foreign-label', f"{label}: labels={meta.get('labels')}", case=case)
            if 'other.example.com/a' in case['initial_finalizers'] and 'other.example.com/a' not in fins:
                oc.add('C08/lost-update', 'initial-foreign-finalizer', f"{label}: finalizers={fins}", case=case)
            if 'u0' not in spec_items or ('s0' not in status_items and not case.get('no_status')) \
                    or (meta.get('annotations') or {}).get('user/note') != 'keep':
                oc.add('C08/lost-update', 'user-data', f"{label}: user data damaged: {spec_items} {status_items}", case=case)
            # status goes through the subresource exactly when there is one
            subs = [r[2] for r in obs['requests']]
            if case['status_subresource'] and 'status' in case['merge'] and 'status' not in subs:
                oc.add('C08/status-routing', 'no-status-request', f"{label}: {obs['requests']}", case=case)
            if not case['status_subresource'] and 'status' in subs:
                oc.add('C08/status-routing', 'unexpected-status-request', f"{label}: {obs['requests']}", case=case)
            sigs.append((position, override, tuple(r[1:] for r in obs['requests'])))
    oc.digest = core.stable_hash(case, repr(sigs)).__format__('x')  # stable_hash canonicalises key order
    oc.signature = core.stable_hash(sorted(case['merge']), case['fns'], case['status_subresource'], case['foreign'],
                                    case['initial_finalizers']).__format__('x')
    oc.nontrivial = interesting > 0
    oc.counters = {'enumerated.cases': cases, 'fault.foreign-write-between-requests': interesting,
                   'fault.status-404-422': sum(1 for _ in range(n)) * 2 * (n + 1)}
    oc.sim_seconds = 0.0
    oc.summary = {'harness': 'A', 'case': case, 'requests_without_interference': base['requests'], 'cases': cases}
    return oc


def _leaves(d: Any, path: tuple[str, ...] = ()) -> Any:
    if isinstance(d, dict) and not d and not path:
        return
    if isinstance(d, dict) and d:
        for k, v in d.items():
            yield from _leaves(v, path + (k,))
    else:
        yield path, d


def _resolve(d: Any, path: tuple[str, ...]) -> Any:
    for p in path:
        if not isinstance(d, dict) or p not in d:
            return None
        d = d[p]
    return d


# --------------------------------------------------------------------------------------
# Harness B
# --------------------------------------------------------------------------------------
def gen_plan_b(ch: Chooser) -> dict[str, Any]:
    settings = common.base_settings(ch)
    handlers: list[dict[str, Any]] = []
    for i in range(ch.int(1, 2)):
        handlers.append({'id': f'c{i + 1}', 'kind': 'create', 'opts': {},
                         'script': [{'do': ch.choice(['ok', 'temp']), 'dur': ch.choice([0.5, 1.0, 3.0]), 'delay': 0.5,
                                     'result': {'v': i}},
                                    {'do': 'ok', 'dur': ch.choice([0.0, 0.5]), 'result': {'v': i}}]})
    if ch.bool(0.5):
        handlers.append({'id': 'u1', 'kind': 'update', 'opts': {},
                         'script': [{'do': 'ok', 'dur': ch.choice([0.5, 2.0]), 'patch': {'status': {'upd': 1}}}]})
    if ch.bool(0.5):
        handlers.append({'id': 'tm1', 'kind': 'timer', 'opts': {'interval': ch.choice([0.5, 1.0])},
                         'script': [{'do': 'ok', 'dur': ch.choice([0.2, 1.0]), 'result': {'tick': 1}},
                                    {'do': 'ok', 'dur': 0.2, 'result': {'tick': 2}}]})
    if ch.bool(0.4):
        handlers.append({'id': 'dm1', 'kind': 'daemon', 'opts': {'cancellation_timeout': 1.0},
                         'daemon': {'mode': 'exit', 'after': ch.choice([0.5, 2.0]), 'result': {'seen': 1}}})
    names = ['w0', 'w1'][:ch.int(1, 2)]
    actions: list[dict[str, Any]] = [{'t': 0.0, 'do': 'start', 'op': 'op1'}]
    objects = [{'kind': 'widgets', 'body': {'metadata': {'name': n}, 'spec': {'a': 0}}} for n in names]
    triggers = []
    gen = 0
    for _ in range(ch.int(1, 3)):
        gen += 1
        name = ch.choice(names)
        act = {'do': 'recreate', 'name': name, 'delay': ch.choice([0.0, 0.1, 0.4, 0.9]),
               'body': {'metadata': {'name': name}, 'spec': {'a': 0, 'generation': gen}}}
        hid = ch.choice([h['id'] for h in handlers])
        triggers.append({'on': {'what': 'h+', 'hid': hid, 'name': name, 'n': ch.int(0, 2)}, 'actions': [act]})
    for _ in range(ch.int(0, 3)):
        actions.append({'t': ch.float(1.0, 15.0), 'do': 'patch', 'name': ch.choice(names),
                        'patch': {'spec': {'a': ch.int(1, 50)}}})
    actions.sort(key=lambda a: a['t'])
    return {
        'until': 60.0,
        'kinds': [{'plural': 'widgets', 'status_subresource': ch.bool(0.4)}],
        'operators': [{'id': 'op1', 'standalone': True, 'settings': settings, 'handlers': handlers}],
        'objects': objects, 'actions': actions, 'triggers': triggers,
        'tie_random': ch.bool(0.3),
        'net': {'latency_seed': ch.int(0, 1 << 30), 'lat_lo': 0.001, 'lat_hi': ch.choice([0.005, 0.05]),
                'watch_lat_lo': 0.001, 'watch_lat_hi': 0.01, 'rules': []},
    }


def oracle_b(run: runner.Run, oc: Outcome) -> None:
    rd = run.rdef('widgets')
    reused = 0
    for tr in run.transitions:
        if tr.rkey != rd.key or not common.is_operator_actor(run, tr.actor) or tr.verb not in ('patch', 'patch-noop'):
            continue
        ctx = tr.ctx or {}
        intended = ctx.get('intended_uid')
        if intended is None or intended == tr.uid:
            continue
        reused += 1
        req = tr.request
        oc.add('C08/wrong-object', 'name-reused',
               f"a write computed for object uid={intended} landed on uid={tr.uid}, a later object that reuses the name "
               f"{tr.name!r} (t={tr.t:.4f}, request={str(req)[:160]})", name=tr.name)
    oc.probes['probe.write-on-reused-name'] = reused
    recreated = sum(1 for e in run.sim.trace if e[2] == 'act' and e[3] == 'recreate')
    if recreated:
        oc.nontrivial = True


def evaluate(plan: dict[str, Any]) -> Outcome:
    if plan.get('harness') == 'A':
        return evaluate_a(plan)
    return common.evaluate_closed_loop(plan, oracle_b)
