"""
C01 -- Per-object event processing is serial, ordered and lossless.

Closed loop: the real watch stack + queueing.watcher/worker/Scheduler + processing feed
`@kopf.on.event` handlers with scripted durations. The reference is what the real
`watching.infinite_watch()` yielded to the multiplexer (tap), compared with the handler
invocations per object.
"""
from __future__ import annotations

from typing import Any

from kopfsim import runner
from kopfsim.props import common
from kopfsim.search import Chooser, Outcome

ID = 'C01'
TITLE = 'Per-object event processing is serial, ordered and lossless'
LEVEL = 'exploration'
RULE = ('plans are generated from the per-run seed: 1-5 objects, 5-40 foreign edits, scripted handler '
        'durations, idle_timeout/worker_limit/exit_timeout knobs, edits triggered to land on the '
        'idle-retirement deadline (exact coincidence via timer snapping, both tie orders), loop stalls, '
        'stream disconnects, shutdown at a drawn instant. Distinct = abstract trace signature '
        '(sequence of handler/event/fault kinds, times erased); non-trivial = at least one fault, '
        'coincidence or random tie actually fired in the run.')
COMPONENTS = common.COMPONENTS
ASSUMPTIONS = common.BASE_ASSUMPTIONS + [
    'the reference sequence is what kopf\'s own watching.infinite_watch() yielded (events lost inside '
    'the watch stack itself are C19\'s subject)',
]
PROBES = ['probe.timeout-with-nonempty-backlog', 'probe.worker-respawn', 'probe.limit-saturated',
          'probe.worker-idle-timeout']
EPS = 0.02  # scheduling hops between "ready" and "started": a handful of loop iterations


def gen_plan(ch: Chooser, tier: str) -> dict[str, Any]:
    idle = ch.choice([0.01, 0.05, 0.2, 1.0, 5.0, 0.01, 0.05, 0.2, 1.0, 5.0, 0])   # 0: retire at once when idle
    limit = ch.choice([None, None, 1, 2, 3])
    settings = common.base_settings(ch)
    settings.update(idle_timeout=idle, worker_limit=limit,
                    exit_timeout=ch.choice([0.05, 2.0]),
                    consistency_timeout=ch.choice([0, 0.5, 5.0]))
    nobj = ch.int(1, 5)
    names = [f'w{i}' for i in range(nobj)]
    durs = (0.0, 0.0, 0.001, 0.01, 0.3, 1.0, 2.0)
    scripts = {}
    for name in names:
        steps = []
        for n in range(ch.int(1, 6)):
            step: dict[str, Any] = {'do': 'ok', 'dur': ch.choice(durs)}
            if n < 3 and ch.bool(0.25):
                step['result'] = {'n': n}
            steps.append(step)
        steps.append({'do': 'ok', 'dur': ch.choice(durs)})
        scripts[name] = steps
    handlers = [{'id': 'ev', 'kind': 'event', 'scripts': scripts, 'script': [{'do': 'ok'}]}]
    lat_hi = ch.choice([0.002, 0.01, 0.05])
    horizon = ch.choice([10.0, 20.0, 40.0])
    actions: list[dict[str, Any]] = [{'t': 0.0, 'do': 'start', 'op': 'op1'}]
    counter = 0
    for _ in range(ch.int(5, 40)):
        counter += 1
        actions.append({'t': ch.float(0.2, horizon), 'do': 'patch', 'name': ch.choice(names),
                        'patch': {'spec': {'c': counter}}})
    # bursts: several edits of one object at almost the same time
    for _ in range(ch.int(0, 3)):
        t = ch.float(0.2, horizon)
        name = ch.choice(names)
        for k in range(ch.int(2, 5)):
            counter += 1
            actions.append({'t': round(t + k * ch.choice([0.0, 0.0005, 0.01]), 6), 'do': 'patch',
                            'name': name, 'patch': {'spec': {'c': counter}}})
    for _ in range(ch.int(0, 2)):
        name = ch.choice(names)
        t = ch.float(1.0, horizon)
        actions.append({'t': t, 'do': 'delete', 'name': name})
        if ch.bool(0.6):
            actions.append({'t': round(t + ch.choice([0.0, 0.01, 1.0]), 6), 'do': 'create',
                            'body': {'metadata': {'name': name}, 'spec': {'c': -1}}})
    # disturbances
    for _ in range(ch.int(0, 3)):
        actions.append({'t': ch.float(0.5, horizon), 'do': 'stall', 'op': 'op1',
                        'dur': ch.choice([0.01, idle, idle * 1.5, 3.0])})
    for _ in range(ch.int(0, 2)):
        actions.append({'t': ch.float(0.5, horizon), 'do': 'close-streams', 'kind': 'widgets',
                        'how': ch.choice(['eof', 'reset'])})
    if ch.bool(0.15):
        actions.append({'t': ch.float(0.5, horizon), 'do': 'compact', 'kind': 'widgets'})
    # edits aimed at the instant an idle worker retires
    triggers = []
    mid = lat_hi / 2
    for _ in range(ch.int(0, 6)):
        counter += 1
        triggers.append({
            'on': {'what': 'h-', 'hid': 'ev', 'name': ch.choice(names), 'n': ch.int(0, 8)},
            'actions': [{'do': 'patch', 'name': ch.choice(names), 'patch': {'spec': {'c': 1000 + counter}},
                         'delay': max(0.0, round(idle - mid + ch.choice([-mid, 0.0, 0.0, mid]), 6))}],
        })
    end = ch.choice(['run', 'run', 'stop', 'cancel', 'kill'])
    t_end = ch.float(1.0, horizon + 5.0)
    if end != 'run':
        actions.append({'t': t_end, 'do': end, 'op': 'op1'})
    actions.sort(key=lambda a: a['t'])
    n_events = sum(1 for a in actions if a['do'] in ('patch', 'create', 'delete')) + len(triggers) + 3 * nobj + 10
    grace = 30.0 + (n_events * (2.2 + idle) / limit if limit else n_events * 2.2)
    return {
        'until': horizon + 10.0 + grace,
        'grace': grace,
        'kinds': [{'plural': 'widgets', 'status_subresource': ch.bool(0.3)}],
        'operators': [{'id': 'op1', 'standalone': True, 'settings': settings, 'handlers': handlers}],
        'objects': [{'kind': 'widgets', 'body': {'metadata': {'name': n}, 'spec': {'c': 0}}} for n in names],
        'actions': actions,
        'triggers': triggers,
        'tie_random': ch.bool(0.6),
        'net': {'latency_seed': ch.int(0, 1 << 30), 'lat_lo': 0.001, 'lat_hi': lat_hi,
                'watch_lat_lo': 0.0005, 'watch_lat_hi': lat_hi,
                'snap_prob': ch.choice([0.0, 0.5, 0.9]), 'snap_window': lat_hi * 2,
                'chunking': ch.choice(['line', 'line', 'torn'])},
    }


def oracle(run: runner.Run, oc: Outcome) -> None:
    op = run.op('op1')
    if op is None:
        return
    spec = common.spec_of(run, 'op1')
    limit = spec['settings'].get('worker_limit')
    # When did the watcher stop being alive (stop/cancel/kill/exit)?
    t_dead = min([t for t in (op.t_stop_requested, op.t_killed, op.exit[0] if op.exit else None)
                  if t is not None], default=None)

    yields: dict[str, list[tuple[float, int, Any, Any]]] = {}
    worker_spans: list[tuple[float, float, str]] = []
    open_workers: dict[str, float] = {}
    worker_count: dict[str, int] = {}
    for e in run.sim.trace:
        kind = e[2]
        if kind == 'yield' and e[4] == 'widgets' and e[7] is not None:
            yields.setdefault(e[7], []).append((e[1], e[0], e[6], e[8]))
        elif kind == 'worker+' and e[4] == 'widgets':
            open_workers[e[5]] = e[1]
            worker_count[e[5]] = worker_count.get(e[5], 0) + 1
        elif kind == 'worker-' and e[4] == 'widgets':
            t0 = open_workers.pop(e[5], None)
            if t0 is not None:
                worker_spans.append((t0, e[1], e[5]))
    for uid, t0 in open_workers.items():
        worker_spans.append((t0, float('inf'), uid))
    oc.probes['probe.worker-respawn'] = sum(1 for n in worker_count.values() if n > 1)
    oc.probes['probe.timeout-with-nonempty-backlog'] = run.sim.counters.get('probe.timeout-with-nonempty-backlog', 0)
    oc.probes['probe.worker-idle-timeout'] = run.sim.counters.get('probe.worker-idle-timeout', 0)

    # Processor invocations per object (tap on processing.process_resource_event).
    class P:
        __slots__ = ('t0', 'seq0', 't1', 'seq1', 'etype', 'rv', 'how')
    procs: dict[str, list[P]] = {}
    open_p: dict[str, P] = {}
    for e in run.sim.trace:
        if e[2] == 'proc+' and e[4] == 'widgets':
            p = P()
            p.t0, p.seq0, p.etype, p.rv, p.t1, p.seq1, p.how = e[1], e[0], e[6], e[7], None, None, None
            if e[5] in open_p:
                oc.add('C01/overlap', 'overlap',
                       f"object {e[5]}: a second event entered processing at t={e[1]:.6f} while the "
                       f"previous one (since t={open_p[e[5]].t0:.6f}) was still being processed", uid=e[5])
            open_p[e[5]] = p
            procs.setdefault(e[5], []).append(p)
        elif e[2] == 'proc-' and e[4] == 'widgets':
            p2 = open_p.pop(e[5], None)
            if p2 is not None:
                p2.t1, p2.seq1, p2.how = e[1], e[0], e[6]

    grace = float(run.plan.get('grace', 30.0))
    saturated = 0
    if run.step_capped:
        n_y = sum(len(v) for v in yields.values())
        n_p = sum(len(v) for v in procs.values())
        oc.add('C01/lost', 'never-settles',
               f"the run hit the scheduler's step cap at t={run.sim.now:.3f} with {n_p} of {n_y} delivered events "
               f"processed: the operator spins without getting anywhere (idle_timeout="
               f"{common.spec_of(run, 'op1')['settings'].get('idle_timeout')})")
    for uid, ys in yields.items():
        cs = procs.get(uid, [])
        # 2. order + exactly once (prefix of the yielded sequence)
        got = [(c.etype, c.rv) for c in cs]
        want = [(y[2], y[3]) for y in ys]
        if got != want[:len(got)]:
            k = next((i for i, (g, w) in enumerate(zip(got, want)) if g != w), min(len(got), len(want)))
            dup = len(got) > len(set(got))
            oc.add('C01/order', 'duplicate' if dup else 'reordered-or-skipped',
                   f"object {uid}: processed sequence diverges from the delivered one at position {k}: "
                   f"processed {got[max(0, k - 1):k + 2]} vs delivered {want[max(0, k - 1):k + 2]}", uid=uid)
            continue
        # 3. liveness: nothing lost while the watcher is alive
        if len(got) < len(want):
            first_missing = ys[len(got)]
            alive = t_dead is None
            # (an event queued behind slow processing of the same object is not lost: the silence is counted from the
            # moment the object's worker was last seen busy)
            busy_now = bool(cs) and cs[-1].t1 is None
            last_busy = max([first_missing[0]] + [c.t1 for c in cs[-1:] if c.t1 is not None])
            settled = not busy_now and run.sim.now - last_busy > grace
            if alive and settled and not run.step_capped:
                oc.add('C01/lost', 'lost-while-alive',
                       f"object {uid}: event {first_missing[2]}@{first_missing[3]} delivered at "
                       f"t={first_missing[0]:.6f} was never processed although the watcher stayed alive "
                       f"until t={run.sim.now:.1f} ({len(want) - len(got)} unprocessed)", uid=uid)
                continue
        # 4. independence: an event waits only for its own object's worker or for the worker limit
        prev_end = 0.0
        for c, y in zip(cs, ys):
            ready = max(y[0], prev_end)
            prev_end = c.t1 if c.t1 is not None else float('inf')
            wait = c.t0 - ready
            if wait <= EPS:
                continue
            if run.sim.counters.get('fault.stall'):
                continue  # a stalled loop delays everything; judged in stall-free runs only
            if limit is None:
                oc.add('C01/independence', 'waited-without-limit',
                       f"object {uid}: event ready at {ready:.6f} started only at {c.t0:.6f} "
                       f"with no worker limit configured", uid=uid)
                break
            # With a limit: at every instant of the wait, `limit` other workers must be alive.
            probe_ts = [ready + EPS / 2 + (wait - EPS) * k / 8 for k in range(9)]
            for t in probe_ts:
                alive_n = sum(1 for (a, b, u) in worker_spans if u != uid and a <= t + EPS / 2 and b >= t - EPS / 2)
                if alive_n < limit:
                    oc.add('C01/independence', 'waited-below-limit',
                           f"object {uid}: event ready at {ready:.6f} still waiting at {t:.6f} while only "
                           f"{alive_n} < {limit} other workers were alive", uid=uid)
                    break
            else:
                saturated += 1
                continue
            break
    oc.probes['probe.limit-saturated'] = saturated
    # 5. worker bookkeeping: never two live workers for one object
    by_uid: dict[str, list[tuple[float, float]]] = {}
    for a, b, u in worker_spans:
        by_uid.setdefault(u, []).append((a, b))
    for u, spans in by_uid.items():
        spans.sort()
        for (a1, b1), (a2, b2) in zip(spans, spans[1:]):
            if a2 < b1 - 1e-12:
                oc.add('C01/two-workers', 'two-workers',
                       f"object {u}: two workers alive at once: [{a1:.6f},{b1}] and [{a2:.6f},{b2}]", uid=u)
                break


def evaluate(plan: dict[str, Any]) -> Outcome:
    return common.evaluate_closed_loop(
        plan, oracle,
        nontrivial=lambda run: bool(run.sim.counters.get('tie.random')
                                    or run.sim.counters.get('probe.timeout-with-nonempty-backlog')))
