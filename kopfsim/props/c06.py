"""
C06 -- The finalizer is never released early, always released eventually.
"""
from __future__ import annotations

from typing import Any, Optional

from kopfsim import cluster as cl
from kopfsim import runner
from kopfsim.props import changes, common, spawning
from kopfsim.search import Chooser, Outcome

ID = 'C06'
TITLE = 'The finalizer is never released early, always released eventually'
LEVEL = 'exploration'
RULE = ('mandatory and optional delete handlers with failure scripts, daemons of every reaction type and timers (with and '
        'without cancellation timeouts), label edits toggling whether handlers match, foreign actors adding, removing and '
        'reordering their own finalizers right between the operator\'s requests (forcing 422 on its JSON-patch), deletions '
        'at drawn times (graceful, early, after forced removal of the finalizer), restarts. Invariants at every operator '
        'write: foreign finalizers untouched and in order; our finalizer leaves an object under deletion only when every '
        'matching mandatory delete handler is final and every daemon/timer of the live process has ended or is past '
        'flag+backoff+timeout; outside deletion only when nothing requires it. Liveness at quiescence. '
        'Distinct = abstract trace signature; non-trivial = a 422 conflict happened or a release was judged.')
COMPONENTS = common.COMPONENTS
ASSUMPTIONS = common.BASE_ASSUMPTIONS + [
    'release decisions are judged against the view the operator was given (the snapshot of the processed event)',
    'cancel-only daemons always have a cancellation_timeout in this workload',
]
EPS = 0.02


def gen_plan(ch: Chooser, tier: str) -> dict[str, Any]:
    plan = spawning.gen_spawning_plan(ch, daemons=(0, 2), timers=(0, 1), pauses=False, exits=False,
                                      delete_handlers=True, foreign_finalizers=True, max_objects=3,
                                      sync_share=ch.choice([0.0, 0.0, 0.3, 0.7]))
    op = plan['operators'][0]
    if any(h['kind'] == 'daemon' and h['daemon'].get('sync') for h in op['handlers']) and ch.bool(0.4):
        op['thread_start_latency'] = ch.choice([0.5, 3.0])   # a busy executor: submitted functions start late
    for h in op['handlers']:
        # a synchronous daemon that never reacts (its thread outlives the run): it must be abandoned after its timeout
        if h['kind'] == 'daemon' and h['daemon'].get('sync') and h['daemon']['mode'] == 'ignore' and ch.bool(0.5):
            h['daemon']['hold'] = 500.0
    if not any(h['kind'] in ('daemon', 'timer', 'delete') for h in op['handlers']):
        op['handlers'].append({'id': 'd9', 'kind': 'delete', 'opts': {}, 'script': [{'do': 'ok'}]})
    names = sorted({a['name'] for a in plan['actions'] if a.get('name')} |
                   {o['body']['metadata']['name'] for o in plan['objects']})
    # foreign finalizer edits racing with the operator's own requests
    triggers = []
    for k in range(ch.int(0, 4)):
        name = ch.choice(names)
        edit = ch.choice(['add-finalizer', 'remove-finalizer', 'reverse-finalizers'])
        act: dict[str, Any] = {'do': 'edit', 'edit': edit, 'name': name, 'actor': 'controller',
                               'value': f'other.example.com/f{k % 2}', 'pos': ch.choice([0, None]),
                               'keep': 'kopf.zalando.org/KopfFinalizerMarker',
                               'delay': ch.choice([0.0, 0.0005, 0.002, 0.01])}
        triggers.append({'on': {'what': 'write', 'name': name, 'actor_prefix': 'op1', 'nth': ch.int(1, 8)},
                         'actions': [act]})
    # ... and with its delete handlers: the foreign edit lands while a handler runs, i.e. between the view the
    # cycle was computed from and the cycle's own requests
    del_hids = [h['id'] for h in op['handlers'] if h['kind'] == 'delete']
    for k in range(ch.int(0, 2) if del_hids else 0):
        name = ch.choice(names)
        edit = ch.choice(['add-finalizer', 'remove-finalizer', 'remove-finalizer', 'reverse-finalizers'])
        act2: dict[str, Any] = {'do': 'edit', 'edit': edit, 'name': name, 'actor': 'controller',
                                'value': f'other.example.com/f{k % 2}', 'pos': ch.choice([0, None]),
                                'keep': 'kopf.zalando.org/KopfFinalizerMarker',
                                'delay': ch.choice([0.0, 0.001, 0.05])}
        triggers.append({'on': {'what': ch.choice(['h+', 'h-']), 'hid': ch.choice(del_hids), 'name': name},
                         'actions': [act2]})
    if del_hids and ch.bool(0.3):
        # the targeted variant: a foreign finalizer standing BEFORE ours goes away exactly while the delete handler
        # runs, in the cycle that will both merge-patch the progress and remove our finalizer by index
        name = ch.choice(names)
        plan['actions'].append({'t': round(ch.float(0.3, 2.0), 6), 'do': 'edit', 'edit': 'add-finalizer', 'name': name,
                                'value': 'other.example.com/first', 'pos': 0, 'actor': 'controller'})
        if ch.bool(0.5):
            plan['actions'].append({'t': round(ch.float(0.3, 2.0), 6), 'do': 'edit', 'edit': 'add-finalizer', 'name': name,
                                    'value': 'other.example.com/last', 'pos': None, 'actor': 'controller'})
        if not any(a['do'] == 'delete' and a.get('name') == name for a in plan['actions']):
            plan['actions'].append({'t': round(ch.float(3.0, plan['horizon']), 6), 'do': 'delete', 'name': name})
        plan['actions'].sort(key=lambda a: a['t'])
        retried = ch.bool(0.6)
        for hid in del_hids:
            on: dict[str, Any] = {'what': ch.choice(['h+', 'h-']), 'hid': hid, 'name': name}
            if retried:
                # ... in its last attempt, after an earlier one has left a progress record to be purged
                next(h for h in op['handlers'] if h['id'] == hid)['script'] = [
                    {'do': 'temp', 'dur': 0.1, 'delay': ch.choice([0.2, 0.5])}, {'do': 'ok', 'dur': ch.choice([0.3, 0.8])}]
                on = {'what': 'h+', 'hid': hid, 'name': name, 'n': 1}
            triggers.append({'on': on,
                             'actions': [{'do': 'edit', 'edit': 'remove-finalizer', 'name': name, 'actor': 'controller',
                                          'value': 'other.example.com/first', 'delay': ch.choice([0.0, 0.0005, 0.002, 0.1])}]})
        # ... and is released at last, whatever happened
        for k_, fin_ in enumerate(('other.example.com/first', 'other.example.com/last')):
            plan['actions'].append({'t': round(plan['horizon'] + 5.0 + k_, 6), 'do': 'edit', 'edit': 'remove-finalizer',
                                    'name': name, 'value': fin_, 'actor': 'controller'})
    labelled = [h for h in op['handlers'] if h['kind'] in ('daemon', 'timer') and (h.get('opts') or {}).get('labels')]
    if labelled and ch.bool(0.4):
        # an object under deletion stops matching for an instant (label off and on again) while its daemon is still
        # being stopped: the release decided for the non-matching view must not survive the re-match
        name = ch.choice(names)
        t_del = next((a['t'] for a in plan['actions'] if a['do'] == 'delete' and a.get('name') == name), None)
        if t_del is None:
            t_del = round(ch.float(3.0, plan['horizon']), 6)
            plan['actions'].append({'t': t_del, 'do': 'delete', 'name': name})
        t_off = round(t_del + ch.choice([0.05, 0.3, 0.6]), 6)
        plan['actions'].append({'t': t_off, 'do': 'patch', 'name': name, 'patch': {'metadata': {'labels': {'run': 'no'}}}})
        plan['actions'].append({'t': round(t_off + ch.choice([0.001, 0.005, 0.02]), 6), 'do': 'patch', 'name': name,
                                'patch': {'metadata': {'labels': {'run': 'yes'}}}})
        plan['actions'].sort(key=lambda a: a['t'])
    plan['triggers'] = triggers
    if ch.bool(0.4):
        t = ch.float(3.0, plan['horizon'])
        plan['actions'].append({'t': t, 'do': ch.choice(['kill', 'stop']), 'op': 'op1'})
        plan['actions'].append({'t': round(t + ch.choice([0.2, 3.0]), 6), 'do': 'start', 'op': 'op1'})
        plan['actions'].sort(key=lambda a: a['t'])
    plan['until'] = plan['horizon'] + 90.0
    return plan


def _forever_stopped(run: runner.Run, inc: int, uid: str, hid: str, before_t: float,
                     hspecs: Optional[dict[str, dict[str, Any]]] = None) -> bool:
    """Did this daemon/timer end on its own accord in this process (so that it no longer requires anything)?"""
    h = (hspecs or {}).get(hid) or {}
    o = h.get('opts', {})
    for c in run.calls:
        if not (c.inc == inc and c.uid == uid and c.hid == hid and c.t1 is not None and c.t1 <= before_t):
            continue
        if c.hkind == 'daemon' and c.outcome in ('returned-own', 'returned', 'raised', 'perm') and not c.stop_seen:
            if c.outcome != 'raised' or (o.get('errors') in ('permanent', 'ignored')):
                return True
        if c.hkind == 'timer':
            one_shot = o.get('interval') is None and o.get('idle') is None
            mode = o.get('errors') or 'temporary'
            if c.outcome == 'perm' or (c.outcome == 'exc' and mode == 'permanent'):
                return True
            if one_shot and (c.outcome == 'ok' or (c.outcome == 'exc' and mode == 'ignored')):
                return True
    return False


def oracle(run: runner.Run, oc: Outcome) -> None:
    opid = 'op1'
    op = run.op(opid)
    spec = common.spec_of(run, opid)
    hspecs = common.handler_specs(run, opid)
    st = common.StorageRef(spec)
    fin = st.finalizer
    rd = run.rdef('widgets')
    snaps = common.snapshots(run)
    steps = changes.extract_steps(run)
    judged = 0
    conflicts = sum(1 for t in run.transitions if t.verb == 'patch-rejected')

    def step_of(tr: cl.Transition) -> Optional[changes.Step]:
        for s in steps.get((opid, tr.uid), []):
            if s.actor == tr.actor and s.seq0 <= tr.seq and (s.seq1 is None or tr.seq <= s.seq1):
                return s
        return None

    for tr in run.transitions:
        if tr.rkey != rd.key or common.op_of(tr.actor) != opid or tr.before is None:
            continue
        bf = (tr.before.get('metadata') or {}).get('finalizers') or []
        af = ((tr.after or {}).get('metadata') or {}).get('finalizers') or [] if tr.after is not None else None
        # 3. a rejected request changes nothing
        if tr.verb == 'patch-rejected' and tr.after is not tr.before:
            oc.add('C06/stale-write', 'rejected-but-changed', f"{tr.name}: a rejected JSON-patch changed the object")
        if tr.verb != 'patch':
            continue
        # 1. foreign finalizers are neither added, dropped nor reordered by the framework
        foreign_before = [f for f in bf if f != fin]
        foreign_after = [f for f in (af if af is not None else bf) if f != fin] if af is not None else \
            [f for f in bf if f != fin]
        if tr.after is not None and foreign_before != foreign_after:
            oc.add('C06/foreign-finalizers', 'changed',
                   f"{tr.name}: the operator's write changed the finalizers of others from {foreign_before} to "
                   f"{foreign_after} (request: {str(tr.request)[:200]})", name=tr.name)
        removed = fin in bf and (af is None or fin not in af)
        if not removed:
            continue
        judged += 1
        s = step_of(tr)
        view = snaps.get((tr.uid, s.rv)) if s is not None else None
        view = view if view is not None else tr.before
        inc = int(str(tr.actor).split('#')[1])
        deleting = (view.get('metadata') or {}).get('deletionTimestamp') is not None
        # daemons/timers of the live process
        for c in run.calls:
            if c.hkind == 'daemon' and c.inc == inc and c.uid == tr.uid and c.t0 > tr.t + EPS and deleting \
                    and (c.extra or {}).get('sync'):
                # a synchronous daemon whose function was still queued in a busy executor when its object was released:
                # it holds the finalizer from the moment it is spawned, unless it had been abandoned by then
                o2 = hspecs[c.hid].get('opts', {})
                f2 = (c.extra or {}).get('flag_at')
                t2 = o2.get('cancellation_timeout')
                if spawning.matches(hspecs[c.hid], view) and not (
                        f2 is not None and t2 is not None and tr.t >= f2 + float(o2.get('cancellation_backoff') or 0.0) + float(t2) - EPS):
                    oc.add('C06/released-early', 'daemon-started-after-release',
                           f"{tr.name}: the framework's finalizer was removed at t={tr.t:.4f}; daemon {c.hid} of that object, "
                           f"spawned before and waiting for a thread, started at t={c.t0:.4f} (stop flag at {f2})",
                           name=tr.name, hid=c.hid)
            if c.hkind not in ('daemon', 'timer') or c.inc != inc or c.uid != tr.uid or c.t0 > tr.t:
                continue
            if c.t1 is not None and c.t1 <= tr.t + 1e-9:
                continue
            h = hspecs[c.hid]
            o = h.get('opts', {})
            if not spawning.matches(h, view):
                continue  # only *matching* daemons/timers hold the finalizer
            if c.hkind == 'timer':
                oc.add('C06/released-early', 'timer-running',
                       f"{tr.name}: the framework's finalizer was removed at t={tr.t:.4f} while timer {c.hid} was "
                       f"executing (since t={c.t0:.4f})", name=tr.name, hid=c.hid)
                continue
            flag_at = (c.extra or {}).get('flag_at')
            timeout = o.get('cancellation_timeout')
            backoff = o.get('cancellation_backoff') or 0.0
            abandonable = flag_at is not None and timeout is not None and tr.t >= flag_at + backoff + timeout - EPS
            if not abandonable:
                oc.add('C06/released-early', 'daemon-running',
                       f"{tr.name}: the framework's finalizer was removed at t={tr.t:.4f} while daemon {c.hid} "
                       f"(since t={c.t0:.4f}, stop flag at {flag_at}, backoff={o.get('cancellation_backoff')}, "
                       f"timeout={timeout}) had neither exited nor outlived its cancellation stages",
                       name=tr.name, hid=c.hid)
        if deleting:
            t_mark = min((t.t for t in run.transitions if t.uid == tr.uid and t.verb == 'delete-mark'), default=0.0)
            for hid, h in hspecs.items():
                if h['kind'] != 'delete' or h.get('opts', {}).get('optional') or not spawning.matches(h, view):
                    continue
                finals = [c for c in run.calls if c.hid == hid and c.uid == tr.uid and c.t1 is not None
                          and c.t1 <= tr.t + 1e-9 and c.t0 >= t_mark and changes.final_outcome(c, h)]
                if not finals:
                    oc.add('C06/released-early', 'delete-handler-unfinished',
                           f"{tr.name}: the framework's finalizer was removed at t={tr.t:.4f} although the mandatory "
                           f"delete handler {hid} had not finished", name=tr.name, hid=hid)
        else:
            need = []
            for hid, h in hspecs.items():
                if not spawning.matches(h, view):
                    continue
                if h['kind'] == 'delete' and not h.get('opts', {}).get('optional'):
                    need.append(hid)
                if h['kind'] in ('daemon', 'timer') and not _forever_stopped(run, inc, tr.uid, hid, tr.t, hspecs):
                    need.append(hid)
            if need:
                oc.add('C06/released-early', 'still-required',
                       f"{tr.name}: the framework's finalizer was removed at t={tr.t:.4f} from an object that is not "
                       f"being deleted although {need} still require it (view rv={s.rv if s else None})", name=tr.name)

    # liveness at quiescence
    if op is not None and op.alive and op.t_stop_requested is None and not run.step_capped:
        inc = op.incarnation
        t_end = run.sim.now
        for obj in run.cluster.list(rd, None):
            meta = obj['metadata']
            uid = meta['uid']
            last_touch = max((t.t for t in run.transitions if t.uid == uid and not common.is_operator_actor(run, t.actor)),
                             default=0.0)
            if t_end - last_touch < 60.0:
                continue
            has = st.has_finalizer(obj)
            if meta.get('deletionTimestamp') is not None:
                if has:
                    oc.add('C06/not-released', 'deleting',
                           f"{meta['name']}: under deletion since {meta['deletionTimestamp']}, everything of ours is "
                           f"long finished, but the framework's finalizer is still there at t={t_end:.1f}", uid=uid)
                continue
            need = []
            for hid, h in hspecs.items():
                if not spawning.matches(h, obj):
                    continue
                if h['kind'] == 'delete' and not h.get('opts', {}).get('optional'):
                    need.append(hid)
                if h['kind'] in ('daemon', 'timer') and not _forever_stopped(run, inc, uid, hid, t_end, hspecs):
                    need.append(hid)
            matching = [hid for hid, h in hspecs.items() if spawning.matches(h, obj)
                        and (h['kind'] in ('daemon', 'timer') or (h['kind'] == 'delete' and not h.get('opts', {}).get('optional')))]
            if need and not has:
                oc.add('C06/not-added', 'required',
                       f"{meta['name']}: {need} require the finalizer but it is absent at quiescence", uid=uid)
            if not matching and has:
                oc.add('C06/not-removed', 'not-required',
                       f"{meta['name']}: nothing requires the framework's finalizer but it is still there at quiescence",
                       uid=uid)
    oc.probes['probe.release-judged'] = judged
    oc.probes['probe.json-patch-conflict'] = conflicts
    if judged or conflicts:
        oc.nontrivial = True


def evaluate(plan: dict[str, Any]) -> Outcome:
    return common.evaluate_closed_loop(plan, oracle)
