"""
C03 -- Level-triggered convergence across changes, restarts and downtime.
"""
from __future__ import annotations

from typing import Any, Optional

from kopfsim import runner
from kopfsim.props import changes, common
from kopfsim.search import Chooser, Outcome

ID = 'C03'
TITLE = 'Level-triggered convergence across changes, restarts and downtime'
LEVEL = 'exploration'
RULE = ('histories of creates/edits/deletes on 1-3 objects; handler scripts with finitely many failures; graceful '
        'stops, cancellations and kills (in-flight write applied / not applied) with downtimes during which edits '
        'continue; API faults, echo delays, stalls and stream breaks until faults_stop; then >= 120 virtual seconds '
        'without faults. Oracle at the end: no progress records, last-handled == final essence, handlers of the last '
        'cycle saw the final essence, no operator writes in the final window, deleted objects are gone, downtime '
        'edits handled as one accumulated change. Distinct = abstract trace signature; non-trivial = a fault fired '
        'or a restart happened.')
COMPONENTS = common.COMPONENTS
ASSUMPTIONS = common.BASE_ASSUMPTIONS + [
    'no API error responses are injected after faults_stop (infrastructure errors drop an event\'s effects until the '
    'next event: C12\'s subject)',
    'objects are not re-created under a previously used name (C08\'s subject)',
]
FINAL_WINDOW = 30.0


def gen_plan(ch: Chooser, tier: str) -> dict[str, Any]:
    faulty = ch.bool(0.7)
    plan = changes.gen_change_plan(ch, faults=faulty and ch.bool(0.6), restarts=faulty, subs=ch.bool(0.3),
                                   max_failures=3, api_faults=False)
    for rule in plan['net']['rules']:
        rule.setdefault('match', {})['to_t'] = plan['faults_stop']
    if ch.bool(0.2):
        # targeted history: an update cycle is cut by a kill after its progress has been written, the edit is reverted
        # while the operator is down, and the new process finds the leftovers under a cause that may select nothing
        op1 = plan['operators'][0]
        name = ch.choice(sorted({o['body']['metadata']['name'] for o in plan['objects']}) or ['w0'])
        if not plan['objects']:
            return plan
        ups = [h for h in op1['handlers'] if h['kind'] == 'update']
        if ups:
            ups[0]['script'] = [{'do': 'temp', 'dur': 0.0, 'delay': ch.choice([3.0, 6.0])}, {'do': 'ok', 'dur': 0.0}]
        if ch.bool(0.6):
            op1['handlers'] = [h for h in op1['handlers'] if h['kind'] != 'resume']
        t0 = plan['faults_stop'] + 2.0
        dt_kill = ch.choice([0.3, 0.6, 1.2])
        down = ch.choice([1.0, 4.0])
        if ch.bool(0.35):
            # ... or simply reverted under the running operator, while a handler of the cycle waits for its retry
            plan['actions'] += [
                {'t': t0, 'do': 'patch', 'name': name, 'patch': {'spec': {'tt': 1}}, 'essential': True},
                {'t': round(t0 + ch.choice([0.5, 1.0, 2.0]), 6), 'do': 'patch', 'name': name, 'patch': {'spec': {'tt': None}},
                 'essential': True},
            ]
            dt_kill, down = 2.0, 0.0
        else:
            plan['actions'] += [
                {'t': t0, 'do': 'patch', 'name': name, 'patch': {'spec': {'tt': 1}}, 'essential': True},
                {'t': round(t0 + dt_kill, 6), 'do': 'kill', 'op': 'op1', 'inflight_lands': True},
                {'t': round(t0 + dt_kill + down / 2, 6), 'do': 'patch', 'name': name, 'patch': {'spec': {'tt': None}}, 'essential': True},
                {'t': round(t0 + dt_kill + down, 6), 'do': 'start', 'op': 'op1'},
            ]
        plan['actions'].sort(key=lambda a: a['t'])
        plan['faults_stop'] = round(t0 + dt_kill + down, 6)
        plan['until'] = plan['faults_stop'] + 120.0
    return plan


def oracle(run: runner.Run, oc: Outcome) -> None:
    opid = 'op1'
    op = run.op(opid)
    plan = run.plan
    st = common.StorageRef(common.spec_of(run, opid))
    hspecs = common.handler_specs(run, opid)
    if op is None or not op.alive or run.step_capped:
        if run.step_capped:
            oc.add('C03/non-termination', 'step-cap',
                   f"the run hit the scheduler's step cap at t={run.sim.now:.1f}: the operator never settles")
        return
    t_end = run.sim.now
    rd = run.rdef('widgets')
    steps = changes.extract_steps(run)
    restarted = len(run.ops.get(opid, [])) > 1
    if restarted:
        oc.nontrivial = True

    # c. the framework stopped writing
    late = [t for t in run.transitions if common.op_of(t.actor) == opid and t.t > t_end - FINAL_WINDOW
            and t.rkey == rd.key]
    if late:
        names = sorted({t.name for t in late})
        oc.add('C03/still-writing', 'writes-in-final-window',
               f"{len(late)} operator writes to {names} in the last {FINAL_WINDOW:.0f}s of a run that had "
               f"{t_end - plan['faults_stop']:.0f}s without changes or faults (last at t={late[-1].t:.2f}, "
               f"verb={late[-1].verb})", names=names)

    deletion_requested = {}
    for t in run.transitions:
        if t.rkey == rd.key and t.verb in ('delete-mark', 'delete'):
            deletion_requested[t.uid] = t.t

    finals = {obj['metadata']['uid']: obj for obj in run.cluster.list(rd, None)}
    for uid, obj in finals.items():
        meta = obj['metadata']
        name = meta['name']
        foreign_fins = [f for f in meta.get('finalizers', []) if f != st.finalizer]
        if meta.get('deletionTimestamp') is not None:
            # d. deletion proceeds once our handlers are done (others may still hold the object)
            if st.has_finalizer(obj):
                oc.add('C03/deletion-stuck', 'our-finalizer-remains',
                       f"{name}: deletion was requested at t={deletion_requested.get(uid)} but the framework's "
                       f"finalizer is still there at t={t_end:.1f}", uid=uid)
            continue
        # a. no progress records remain
        recs = st.records(obj)
        ctimeout = float(common.spec_of(run, opid)['settings'].get('consistency_timeout', 5.0))
        blind = any(e[2] == 'fault-echo' and e[4] == name and e[7] - e[6] >= ctimeout * 0.9 for e in run.sim.trace) \
            or any(n_ == name for (n_, _, _) in common.late_echoes(run, ctimeout * 0.9))
        if recs and blind:
            oc.probes['probe.records-left-after-blind-steps'] = oc.probes.get('probe.records-left-after-blind-steps', 0) + 1
        elif recs:
            reverted = common.essence_eq(st.last_handled(obj), common.ref_essence(obj)) and \
                all(r.get('purpose') == 'update' for r in recs.values())
            oc.add('C03/progress-remains', 'after-reverted-change' if reverted else 'records-at-quiescence',
                   f"{name}: progress records remain at quiescence: {sorted(recs)}"
                   + (" (the change under handling was reverted: the cause became a no-op and the cycle was "
                      "abandoned with its records in place)" if reverted else ''), uid=uid)
        # b. last-handled == final essence
        has_cu = any(h['kind'] in ('create', 'update', 'resume', 'delete') for h in hspecs.values())
        lh = st.last_handled(obj)
        ess = common.ref_essence(obj)
        if has_cu and not common.essence_eq(lh, ess):
            oc.add('C03/last-handled-stale', 'stale' if lh is not None else 'missing',
                   f"{name}: the recorded last-handled state differs from the final essential state: "
                   f"{lh} vs {ess}", uid=uid)
            continue
        # e. the handlers of the last cycle completed against the final essential state
        lst = steps.get((opid, uid), [])
        calls = [c for s_ in lst for c in s_.calls if c.hkind in ('create', 'update') and '/' not in c.hid]
        if not calls:
            continue
        closing = [s_ for s_ in lst if s_.reason in ('create', 'update', 'resume') and any(
            w.after is not None and st.last_handled(w.after) != st.last_handled(w.before) for w in s_.writes)]
        if not closing:
            continue
        reason_last = closing[-1].reason   # the cause under which the final state was recorded as handled
        for hid, h in hspecs.items():
            if h['kind'] != reason_last:
                continue
            close_seq = max(w.seq for w in closing[-1].writes
                            if w.after is not None and st.last_handled(w.after) != st.last_handled(w.before))
            fin = [c for c in calls if c.hid == hid and c.reason == reason_last
                   and changes.final_outcome(c, h) and c.seq0 <= close_seq]
            if not fin:
                continue
            c = fin[-1]
            if not common.essence_eq(c.new, ess):
                # Was the object essentially edited by somebody else after this handler had started and before
                # the operator recorded the final state as handled (i.e. while the cycle was still open)?
                closes = [t for t in run.transitions if t.uid == uid and common.op_of(t.actor) == opid
                          and t.after is not None and st.last_handled(t.after) != st.last_handled(t.before)]
                t_close = closes[-1].t if closes else t_end
                edits = [t for t in run.transitions if t.uid == uid and not common.is_operator_actor(run, t.actor)
                         and t.t <= t_close and t.before is not None and t.after is not None
                         and int(t.after['metadata']['resourceVersion']) > int(c.rv or 0)
                         and not common.essence_eq(common.ref_essence(t.before), common.ref_essence(t.after))]
                sig = 'edit-during-open-cycle' if edits else 'no-intervening-edit'
                oc.add('C03/stale-handler', sig,
                       f"{name}: handler {hid} finished (call #{c.n} at t={c.t0:.2f}) against an essential state "
                       f"{c.new} that is not the final one {ess}, and was not run again, yet the final state is "
                       f"recorded as handled", uid=uid, hid=hid)

    # f. after a restart, the resume handlers selected for an object that was there at the start complete as well
    snaps = common.snapshots(run)
    incs = run.ops.get(opid, [])
    for oper in incs:
        if oper.incarnation != op.incarnation or len(incs) < 2:
            continue   # judged for the last process only: it is the one that lived through the quiet period
        for (o_, uid), lst in steps.items():
            mine = [s_ for s_ in lst if s_.actor == oper.actor]
            if not mine or mine[0].etype is not None or uid not in finals:
                continue
            first_view = snaps.get((uid, mine[0].rv))
            if first_view is None:
                continue
            meta0 = first_view.get('metadata') or {}
            if st.last_handled(first_view) is None or meta0.get('deletionTimestamp') is not None or st.records(first_view):
                continue
            if finals[uid]['metadata'].get('deletionTimestamp') is not None:
                continue
            for hid, h in hspecs.items():
                if h['kind'] != 'resume' or h.get('subs'):
                    continue
                calls_r = [c for s_ in mine for c in s_.calls if c.hid == hid]
                if not any(changes.final_outcome(c, h) for c in calls_r):
                    oc.add('C03/handler-never-completed', 'resume-after-restart',
                           f"{finals[uid]['metadata']['name']} was there (handled before, nothing pending) when process "
                           f"{oper.actor} started at t={oper.t_start}, but resume handler {hid} never completed there "
                           f"(calls: {[(c.n, c.outcome) for c in calls_r]}) although the run settled", uid=uid, hid=hid)

    # d'. objects whose deletion was requested and that nobody else holds are gone
    for uid, t_req in deletion_requested.items():
        if uid in finals:
            meta = finals[uid]['metadata']
            others = [f for f in meta.get('finalizers', []) if f != st.finalizer]
            if not others and not st.has_finalizer(finals[uid]):
                oc.add('C03/deletion-stuck', 'not-gone', f"{meta['name']} should be gone", uid=uid)


def evaluate(plan: dict[str, Any]) -> Outcome:
    return common.evaluate_closed_loop(plan, oracle)
