"""
C05 -- Each event maps to exactly one cause; handler kinds are mutually exclusive.
"""
from __future__ import annotations

from typing import Any, Optional

from kopfsim import runner
from kopfsim.props import changes, common
from kopfsim.search import Chooser, Outcome

ID = 'C05'
TITLE = 'Each event maps to exactly one cause; handler kinds are mutually exclusive'
LEVEL = 'exploration'
RULE = ('closed loop with create/update/delete/resume handlers (with and without deleted=True, optional delete '
        'handlers) declared at once; histories with deletions, foreign stripping of the framework\'s finalizer, '
        're-creations, non-essential edits, restarts/kills. For every processed event an independent reference '
        'classifier (documented precedence gone > released > deletion > creation > resume > no-op > update, '
        'computed from the server-side snapshot kopf was shown) must equal the cause kopf detected (tap), and '
        'every change-handler call must be compatible with it. Distinct = abstract trace signature; non-trivial = '
        'at least 3 different cause kinds occurred in the run or a fault fired.')
COMPONENTS = common.COMPONENTS
ASSUMPTIONS = common.BASE_ASSUMPTIONS + [
    'null-valued fields are treated as absent when comparing essences (Kubernetes merge semantics)',
    'no field= handlers in this workload (no extra status fields in the essence)',
]
HANDLER_REASONS = ('create', 'update', 'delete', 'resume')


def gen_plan(ch: Chooser, tier: str) -> dict[str, Any]:
    faulty = ch.bool(0.5)
    plan = changes.gen_change_plan(ch, faults=False, restarts=faulty, subs=False, max_failures=1,
                                   edits=(3, 12))
    names = sorted({a['name'] for a in plan['actions'] if a.get('name')} |
                   {o['body']['metadata']['name'] for o in plan['objects']})
    fin = 'kopf.zalando.org/KopfFinalizerMarker'
    horizon = plan['faults_stop']
    for name in names:
        if ch.bool(0.3):
            # a foreign actor forcibly strips the framework's finalizer (before or during deletion)
            plan['actions'].append({'t': ch.float(1.0, horizon), 'do': 'edit', 'edit': 'remove-finalizer',
                                    'name': name, 'value': fin, 'actor': 'admin'})
        if ch.bool(0.3):
            plan['actions'].append({'t': ch.float(1.0, horizon), 'do': 'edit', 'edit': 'add-finalizer',
                                    'name': name, 'value': 'other.example.com/hold', 'actor': 'controller'})
            plan['actions'].append({'t': ch.float(horizon * 0.8, horizon + 20.0), 'do': 'edit',
                                    'edit': 'remove-finalizer', 'name': name,
                                    'value': 'other.example.com/hold', 'actor': 'controller'})
    if ch.bool(0.35):
        # an object without any payload, labels or annotations: its essence is empty (stored, but falsy)
        plan['objects'].append({'kind': 'widgets', 'body': {'metadata': {'name': 'bare'}}})
        for k in range(ch.int(1, 4)):
            a = changes.gen_edit(ch, 'bare', 900 + k, ch.choice(['status', 'status', 'other-kopf-annotation',
                                                                  'foreign-finalizer', 'label']))
            a = changes.fix_sub(a, plan['kinds'][0].get('status_subresource', False))
            a['t'] = round(ch.float(1.0, horizon), 6)
            plan['actions'].append(a)
        if ch.bool(0.3):
            plan['actions'].append({'t': round(ch.float(horizon * 0.5, horizon), 6), 'do': 'delete', 'name': 'bare'})
    plan['actions'].sort(key=lambda a: a['t'])
    plan['until'] = max(a['t'] for a in plan['actions']) + 100.0
    return plan


def ref_reason(etype: Any, view: Optional[dict[str, Any]], st: common.StorageRef, first_sight: bool) -> Optional[str]:
    if etype == 'DELETED':
        return 'gone'
    if view is None:
        return None
    meta = view.get('metadata') or {}
    deleting = meta.get('deletionTimestamp') is not None
    blocked = st.has_finalizer(view)
    if deleting and not blocked:
        return 'free'
    if deleting:
        return 'delete'
    old = st.last_handled(view)
    if old is None:
        return 'create'
    same = common.essence_eq(common.ref_essence(view), old)
    if same and first_sight:
        return 'resume'
    if same:
        return 'noop'
    return 'update'


def oracle(run: runner.Run, oc: Outcome) -> None:
    opid = 'op1'
    st = common.StorageRef(common.spec_of(run, opid))
    hspecs = common.handler_specs(run, opid)
    snaps = common.snapshots(run)
    steps = changes.extract_steps(run)
    by_rid = {r.rid: r for r in run.net.requests}
    kinds_seen: set[str] = set()
    for (op, uid), lst in steps.items():
        first_by_actor: dict[str, Any] = {}
        handled_once: dict[str, bool] = {}
        for s in lst:
            if s.actor not in first_by_actor:
                first_by_actor[s.actor] = s.etype
            if s.reason is None:
                continue  # the step died before the cause was detected (kill/cancel/throttle)
            kinds_seen.add(s.reason)
            view = snaps.get((uid, s.rv))
            first_sight = first_by_actor[s.actor] is None and not handled_once.get(s.actor, False)
            want = ref_reason(s.etype, view, st, first_sight)
            if want is None:
                continue
            if s.etype == 'DELETED':
                handled_once.pop(s.actor, None)
                first_by_actor.pop(s.actor, None)  # memory is forgotten; a later sight is a new one
            if want != s.reason:
                oc.add('C05/misclassified', f'{want}->{s.reason}',
                       f"{uid}: event {s.etype}@{s.rv} was classified as {s.reason!r} but the object's state says "
                       f"{want!r} (deleting={bool((view or {}).get('metadata', {}).get('deletionTimestamp'))}, "
                       f"our-finalizer={st.has_finalizer(view)}, last-handled={'yes' if st.last_handled(view) is not None else 'no'}, "
                       f"first-sight={first_sight})", uid=uid)
            # handler kinds compatible with the (reference) cause
            for c in s.calls:
                if c.hkind not in common.CHANGE_KINDS:
                    continue
                body_meta = (c.body or {}).get('metadata') or {}
                deleting = body_meta.get('deletionTimestamp') is not None
                if c.hkind in ('create', 'update') and deleting:
                    oc.add('C05/wrong-handler', f'{c.hkind}-on-deleting',
                           f"{c.hkind} handler {c.hid} was invoked on {uid} which is marked for deletion", uid=uid)
                if c.hkind == 'delete' and not (deleting and st.has_finalizer(c.body)):
                    oc.add('C05/wrong-handler', 'delete-without-hold',
                           f"delete handler {c.hid} was invoked on {uid} (deleting={deleting}, "
                           f"our-finalizer={st.has_finalizer(c.body)})", uid=uid)
                if want not in HANDLER_REASONS:
                    oc.add('C05/wrong-handler', f'{c.hkind}-on-{want}',
                           f"change handler {c.hid} was invoked for a {want!r} event of {uid}", uid=uid)
                elif c.hkind == 'resume':
                    if not first_sight or (want == 'delete' and not hspecs[c.hid].get('opts', {}).get('deleted')):
                        oc.add('C05/wrong-handler', f'resume-on-{want}',
                               f"resume handler {c.hid} was invoked on {uid} (cause {want}, first-sight={first_sight})",
                               uid=uid)
                elif c.hkind != want and not (c.hkind == 'field' and want in ('create', 'update', 'resume')):
                    oc.add('C05/wrong-handler', f'{c.hkind}-on-{want}',
                           f"{c.hkind} handler {c.hid} was invoked for a {want!r} cause of {uid}", uid=uid)
                if c.reason is not None and c.reason != want:
                    oc.add('C05/misclassified', f'kwarg:{want}->{c.reason}',
                           f"handler {c.hid} got reason={c.reason!r} but the object's state says {want!r}", uid=uid)
            # "handled once" (no more resuming in this process): the changing cause was really processed in
            # this step (not skipped for a finalizer adjustment or for an unconfirmed own write) and nothing
            # of ours is pending afterwards.
            if want in HANDLER_REASONS and s.how == 'returned':
                state_after = s.writes[-1].after if s.writes else view
                # (a JSON-patch is how the finalizer is adjusted; a rejected one is an attempt all the same)
                adjusted = any(str(w.content_type or '').startswith('application/json-patch') and w.before is not None
                               and (w.before.get('metadata') or {}).get('deletionTimestamp') is None
                               for w in s.writes)
                unconfirmed = s.consistency_time is not None
                ran = [c for c in s.calls if c.hkind in common.CHANGE_KINDS]
                final_now = {st.key_name(c.hid) for c in ran if changes.final_outcome(c, hspecs.get(c.hid, {}))}
                # (a purge that did not land -- e.g. the object vanished between the requests -- leaves records
                # behind although the process considers the cycle completed)
                open_recs = [k for k, r in st.records(state_after).items()
                             if not common.finished(r) and k not in final_now]
                # (a progress write that was refused -- e.g. 404: the object vanished under the handler -- leaves
                # the process knowing that it is not done, while nothing of it is visible in the object)
                name_ = ((view or {}).get('metadata') or {}).get('name')
                refused = any(e[2] == 'rsp' and isinstance(e[4], int) and e[4] >= 400 and s.seq0 <= e[0] <= (s.seq1 or e[0])
                              and (rq := by_rid.get(e[3])) is not None and rq.method == 'PATCH'
                              and rq.session.actor == s.actor and rq.attrs.get('name') == name_
                              for e in run.sim.trace)
                if refused:
                    # ... unless every handler selected for this cause is finished anyway (by the records in the view
                    # or by its outcome right now): then the process knows it is done, whatever became of the write
                    sel = [hid_ for hid_, h_ in hspecs.items() if h_['kind'] == want or
                           (first_sight and h_['kind'] == 'resume' and want != 'create'   # (creation never mixes with resuming)
                            and (want != 'delete' or h_.get('opts', {}).get('deleted')))]
                    recs_view = st.records(view)
                    refused = not all(common.finished(recs_view.get(st.key_name(hid_))) or st.key_name(hid_) in final_now
                                      for hid_ in sel)
                if not adjusted and (ran or not unconfirmed) and not open_recs and not refused:
                    pending = [c for c in ran if not changes.final_outcome(c, hspecs.get(c.hid, {}))]
                    if not pending:
                        handled_once[s.actor] = True
    oc.probes['probe.cause-kinds'] = len(kinds_seen)
    if len(kinds_seen) >= 3:
        oc.nontrivial = True
    for k in kinds_seen:
        oc.probes[f'probe.cause.{k}'] = 1


def evaluate(plan: dict[str, Any]) -> Outcome:
    return common.evaluate_closed_loop(plan, oracle)
