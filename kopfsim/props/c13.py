"""
C13 -- Peering: lower-priority operators pause, exactly the top one is active.
"""
from __future__ import annotations

import datetime
from typing import Any, Optional

from kopfsim import core, runner
from kopfsim.props import common
from kopfsim.search import Chooser, Outcome

ID = 'C13'
TITLE = 'Peering: lower-priority operators pause, exactly the top one is active'
LEVEL = 'exploration'
RULE = ('2-4 operator processes (one virtual-time event loop each) with drawn priorities (mostly distinct, sometimes equal) '
        'and keep-alive lifetimes 3-20 s share one cluster-wide peering object; starts, graceful stops, cancellations and '
        'kills in drawn order and timing, restarts; peering-event delivery delays and API latency drawn; junk in the '
        'peering status (unknown fields, missing lifetime, dead records, records of strangers). Every operator serves the '
        'same kind with a create handler, an update handler and a daemon. "Paused" is observed by effect: no open watch '
        'stream for the served kind. Oracles: (1) after an operator was delivered a peering state with a live peer of '
        'higher-or-equal priority it has no open stream and its daemons are flagged within a slack, until a state without '
        'such a peer is delivered or the peer expires; (2) once the history settles, exactly the highest-priority running '
        'operator is active; (3) the record of a running operator never lapses, is removed on graceful exit, and expired '
        'records get cleaned; (4) no handler succeeds twice in one process for one change. Distinct = abstract trace '
        'signature; non-trivial = at least two operators saw each other.')
COMPONENTS = common.COMPONENTS
ASSUMPTIONS = common.BASE_ASSUMPTIONS + [
    'clocks of the processes are synchronised (skew 0): the guarantee presupposes it',
    'lifetimes >= 3 s: the keep-alive period is max(1, lifetime - 10) .. so shorter lifetimes cannot be renewed in time by construction',
    'operators with equal priorities both pause (documented conflict); the settled-state clause skips such ties',
]
REDUCIBLE = ['objects', 'net.rules']
SLACK = 2.5
EPS = 1e-6


def gen_plan(ch: Chooser, tier: str) -> dict[str, Any]:
    n_ops = ch.int(2, 4)
    prios = ch.sample([10, 20, 30, 40, 50], n_ops)
    if ch.bool(0.15):
        prios[1] = prios[0]
    horizon = ch.choice([15.0, 30.0])
    operators = []
    actions: list[dict[str, Any]] = []
    lifetimes = []
    for i in range(n_ops):
        settings = common.base_settings(ch)
        life = ch.choice([3, 5, 8, 20])
        lifetimes.append(life)
        settings['peering_lifetime'] = life
        handlers = [
            {'id': 'c1', 'kind': 'create', 'opts': {}, 'script': [{'do': 'ok', 'dur': ch.choice([0.0, 0.5, 2.0])}]},
            {'id': 'u1', 'kind': 'update', 'opts': {}, 'script': [{'do': 'ok', 'dur': ch.choice([0.0, 0.5])}]},
            {'id': 'dm', 'kind': 'daemon', 'opts': {'cancellation_backoff': 0.5, 'cancellation_timeout': 1.0},
             'daemon': {'mode': ch.choice(['obey', 'poll', 'cancel'])}},
        ]
        if handlers[2]['daemon']['mode'] != 'cancel' and ch.bool(0.3):
            handlers[2]['daemon']['sync'] = True   # a synchronous daemon (simulated thread)
        if ch.bool(0.2):
            handlers[0]['sync'] = True
        operators.append({'id': f'op{i + 1}', 'settings': settings, 'handlers': handlers, 'standalone': False,
                          'peering_name': 'default', 'priority': prios[i]})
        t0 = 0.0 if i == 0 or ch.bool(0.4) else round(ch.float(0.0, horizon * 0.5), 6)
        actions.append({'t': t0, 'do': 'start', 'op': f'op{i + 1}'})
        # life events of this process
        t = t0
        for _ in range(ch.int(0, 2)):
            t = round(t + ch.float(2.0, horizon * 0.5), 6)
            if t > horizon:
                break
            what = ch.weighted([('stop', 3), ('kill', 3), ('cancel', 1)])
            actions.append({'t': t, 'do': what, 'op': f'op{i + 1}'})
            if ch.bool(0.5):
                t = round(t + ch.float(0.2, 6.0), 6)
                actions.append({'t': t, 'do': 'start', 'op': f'op{i + 1}'})
            else:
                break
    if n_ops >= 3 and ch.bool(0.4):
        # targeted history: the lowest operator is paused by two live blockers, one of which dies silently (its record
        # expires) while the other keeps renewing: the survivor's record must stay, the lowest must stay paused
        order = sorted(range(n_ops), key=lambda i: prios[i])
        low, mid = order[0], order[1]
        if prios[mid] == prios[order[2]] or prios[low] == prios[mid]:
            prios[low], prios[mid] = 5, 7
            operators[low]['priority'], operators[mid]['priority'] = 5, 7
        actions[:] = [a for a in actions if a['do'] == 'start' and a['op'] in (f'op{low + 1}', f'op{mid + 1}', f'op{order[-1] + 1}')
                      or a.get('op') not in (f'op{low + 1}', f'op{mid + 1}', f'op{order[-1] + 1}')]
        for a in actions:
            if a['do'] == 'start':
                a['t'] = 0.0 if a['op'] != f'op{low + 1}' else ch.choice([0.0, 1.0])
        actions.append({'t': round(ch.float(3.0, horizon * 0.6), 6), 'do': 'kill', 'op': f'op{mid + 1}'})
    objects = [{'kind': 'widgets', 'body': {'metadata': {'name': f'w{i}'}, 'spec': {'a': i}}}
               for i in range(ch.int(1, 2))]
    for k in range(ch.int(0, 4)):
        actions.append({'t': round(ch.float(0.5, horizon), 6), 'do': 'patch', 'name': ch.choice(['w0', 'w1']),
                        'patch': {'spec': {'n': k + 1}}, 'essential': True})
    status: dict[str, Any] = {}
    if ch.bool(0.4):
        # junk that a peering object may contain
        status['stranger'] = {'priority': ch.choice([1, 99]), 'lifetime': 60,
                              'lastseen': core.iso(core.EPOCH - datetime.timedelta(seconds=ch.choice([1000, 30])))}
        if ch.bool(0.5):
            status['nolife'] = {'priority': 5, 'lastseen': core.iso(core.EPOCH - datetime.timedelta(seconds=500))}
        if ch.bool(0.5):
            status['odd'] = {'priority': 1, 'lifetime': 1, 'lastseen': core.iso(core.EPOCH - datetime.timedelta(seconds=100)),
                             'unknown-field': {'x': [1, 2]}}
    rules: list[dict[str, Any]] = []
    for _ in range(ch.int(0, 2)):
        rules.append({'phase': 'event', 'match': {'kind': 'clusterkopfpeerings'}, 'nth': ch.int(1, 12),
                      'action': {'kind': 'event-delay', 'delay': ch.choice([0.3, 1.0, 2.5])}})
    actions.sort(key=lambda a: a['t'])
    settle = max(lifetimes) + 12.0
    return {
        'horizon': horizon, 'until': round(horizon + 2 * settle, 3), 'settle': settle,
        'kinds': [{'plural': 'widgets'}], 'operators': operators, 'objects': objects, 'actions': actions,
        'peering': {'objects': [{'kind': 'clusterkopfpeerings', 'name': 'default', **({'status': status} if status else {})}]},
        'tie_random': ch.bool(0.3),
        'net': {'latency_seed': ch.int(0, 1 << 30), 'lat_lo': 0.001, 'lat_hi': ch.choice([0.005, 0.05, 0.2]),
                'watch_lat_lo': 0.001, 'watch_lat_hi': ch.choice([0.005, 0.05, 0.2]), 'rules': rules},
    }


def _parse(ts: Any) -> Optional[float]:
    """ISO timestamp of the virtual wall clock -> virtual seconds."""
    if not isinstance(ts, str):
        return None
    try:
        dt = datetime.datetime.fromisoformat(ts)
    except ValueError:
        return None
    if dt.tzinfo is None:
        dt = dt.replace(tzinfo=datetime.timezone.utc)
    return (dt - core.EPOCH).total_seconds()


def _live_rivals(status: dict[str, Any], me: str, myprio: int, now: float) -> list[tuple[str, float]]:
    """(identity, expires_at) of records that must pause `me`, as kopf's docs define liveness."""
    out = []
    for ident, rec in (status or {}).items():
        if ident == me or not isinstance(rec, dict):
            continue
        seen = _parse(rec.get('lastseen'))
        try:
            life = float(rec.get('lifetime', 60))
            prio = int(rec.get('priority', 0))
        except (TypeError, ValueError):
            continue
        if seen is None:
            continue
        if seen + life > now and prio >= myprio:
            out.append((ident, seen + life))
    return out


def _stale(run: runner.Run, actor: str, c: runner.Call) -> bool:
    """Did this call see a view older than a write of the same process acknowledged before it started?"""
    try:
        v = int(c.rv or 0)
    except ValueError:
        return False
    return any(t.uid == c.uid and t.actor == actor and t.after is not None and t.t < c.t0
               and int(t.after['metadata']['resourceVersion']) > v for t in run.transitions)


def oracle(run: runner.Run, oc: Outcome) -> None:
    plan = run.plan
    trace = run.sim.trace
    t_end = run.sim.now
    rd = run.rdef('clusterkopfpeerings')
    snaps: dict[str, dict[str, Any]] = {}   # resourceVersion -> peering object
    for t in run.transitions:
        if t.rkey == rd.key and t.after is not None:
            snaps[str(t.after['metadata']['resourceVersion'])] = t.after
    incs: list[runner.Operator] = [o for lst in run.ops.values() for o in lst]
    saw_each_other = 0

    # widgets streams per actor: (t_open_req, t_close)
    streams: dict[str, list[tuple[float, float]]] = {}
    for c in run.net.all_streams:
        if c.rdef.plural == 'widgets':
            streams.setdefault(c.actor, []).append((c.t_open, c.t_close if c.closed else float('inf')))

    def active_at(actor: str, t: float) -> bool:
        return any(a <= t < b for a, b in streams.get(actor, []))

    # ---- (3b) nobody removes the unexpired record of a peer that is running ----
    by_ident = {o.spec.get('identity', o.actor): o for o in incs}
    for t in run.transitions:
        if t.rkey != rd.key or t.before is None or t.after is None or not common.is_operator_actor(run, t.actor):
            continue
        sb, sa = (t.before.get('status') or {}), (t.after.get('status') or {})
        for who, rec in sb.items():
            owner = by_ident.get(who)
            if who in sa and sa[who] is not None or owner is None or owner.actor == t.actor or not isinstance(rec, dict):
                continue
            seen = _parse(rec.get('lastseen'))
            expires = (seen if seen is not None else t.t) + float(rec.get('lifetime') or 60)
            gone = min([x for x in (owner.t_killed, owner.exit[0] if owner.exit else None, owner.t_stop_requested)
                        if x is not None], default=float('inf'))
            if expires > t.t + 1.0 and gone > t.t and owner.t_start is not None and owner.t_start <= t.t:
                # told apart: the remover was looking at an older state of the peering object (a delayed event) in which
                # the record had not been renewed yet and was, by now, expired -- its blind removal hits the renewed one
                looked = [str(e[6]) for e in trace if e[2] == 'peer-proc' and e[3] == t.actor and e[1] <= t.t and e[6] is not None]
                view = snaps.get(looked[-1]) if looked else None
                vrec = ((view or {}).get('status') or {}).get(who) if view is not None else None
                vseen = _parse(vrec.get('lastseen')) if isinstance(vrec, dict) else None
                stale_dead = vseen is not None and vseen + float(vrec.get('lifetime') or 60) <= t.t and vseen < (seen or 0.0)
                oc.add('C13/record-lapsed', 'renewed-record-removed-on-stale-view' if stale_dead else 'live-record-removed-by-peer',
                       f"{t.actor} removed the peering record of {who} at t={t.t:.3f} although {who} was running and its "
                       f"record (last seen {rec.get('lastseen')}, lifetime {rec.get('lifetime')}) was valid until "
                       f"t={expires:.3f}", actor=t.actor)
    for op in incs:
        actor = op.actor
        ident = op.spec.get('identity', actor)
        prio = int(op.spec.get('priority', 0))
        life = float(op.spec['settings'].get('peering_lifetime', 60))
        t_gone = min([x for x in (op.t_killed, op.exit[0] if op.exit else None, op.t_stop_requested) if x is not None],
                     default=t_end)
        # ---- (1) pausing on what it was delivered ----
        # (t, rv) of the peering states this process has looked at: "observed" is when its serial peering worker
        # gets to the event, which can lag behind the delivery (every look may cost API calls: cleaning, touching)
        deliveries = []
        for e in trace:
            if e[2] == 'peer-proc' and e[3] == actor and e[6] is not None and e[4] != 'DELETED':
                deliveries.append((e[1], str(e[6])))
        must: list[tuple[float, float]] = []
        cur_from: Optional[float] = None
        cur_until = 0.0
        for (t, rv) in deliveries:
            obj = snaps.get(rv)
            if obj is None:
                continue
            rivals = _live_rivals(obj.get('status') or {}, ident, prio, t)
            if any(r[0].startswith('op') for r in rivals):
                saw_each_other += 1
            if rivals:
                if cur_from is None:
                    cur_from = t
                cur_until = max(r[1] for r in rivals)
            else:
                if cur_from is not None:
                    must.append((cur_from, min(t, cur_until)))
                    cur_from = None
        if cur_from is not None:
            must.append((cur_from, min(cur_until, t_gone)))
        for (a, b) in must:
            b = min(b, t_gone)
            if b - a < SLACK + 1.0:
                continue
            # open streams inside [a + SLACK, b - 0.5]
            bad = [(x, y) for (x, y) in streams.get(actor, []) if x < b - 0.5 and y > a + SLACK and
                   min(y, b - 0.5) - max(x, a + SLACK) > 0.3]
            if bad:
                oc.add('C13/not-paused', 'stream-open',
                       f"{actor} (priority {prio}) looked at a peering state with a live peer of higher-or-equal "
                       f"priority at t={a:.3f} (valid until {b:.3f}) but kept/opened a widgets stream "
                       f"[{bad[0][0]:.3f}, {bad[0][1]:.3f}]", actor=actor)
            for c in run.calls:
                if c.op == op.opid and c.inc == op.incarnation and c.hkind == 'daemon' and c.t0 < a + 0.5 and \
                        (c.t1 is None or c.t1 > a + SLACK + 2.0):
                    flag_at = (c.extra or {}).get('flag_at')
                    if flag_at is None or flag_at > a + SLACK + 2.0:
                        oc.add('C13/not-paused', 'daemon-not-stopped',
                               f"{actor}: daemon {c.hid} of {c.uid} was not asked to stop within {SLACK + 2.0}s of the pause "
                               f"that began at t={a:.3f} (flag at {flag_at})", actor=actor)
            late = [c for c in run.calls if c.op == op.opid and c.inc == op.incarnation and c.hkind in ('create', 'update')
                    and a + SLACK + 3.0 < c.t0 < b - 0.5]
            if late:
                oc.add('C13/not-paused', 'handler-on-stale-view-while-paused' if _stale(run, actor, late[0]) else 'handler-ran',
                       f"{actor}: change handler {late[0].hid} started at t={late[0].t0:.3f}, deep inside the pause "
                       f"[{a:.3f}, {b:.3f}]", actor=actor)
        # ---- (1b) resuming promptly once the blockers are gone (withdrawn or expired) ----
        lat = float(plan['net'].get('lat_hi', 0.01)) + float(plan['net'].get('watch_lat_hi', 0.01))
        for k, (a, b) in enumerate(must):
            if b - a < 1.0 or b > t_gone - 8.0:
                continue
            if any(a2 < b + 6.0 for (a2, _) in must[k + 1:]):
                continue
            deadline = b + 3.0 + 6 * lat
            if not any(x <= deadline and y > b for (x, y) in streams.get(actor, [])):
                nxt = min([x for (x, _) in streams.get(actor, []) if x > b], default=None)
                oc.add('C13/resume-late', 'after-blockers-gone',
                       f"{actor}: every higher-or-equal peer it knew of was gone by t={b:.3f}, but it re-opened its "
                       f"widgets stream only at {nxt}", actor=actor)
        # ---- (3) own record: renewed in time, removed on graceful exit ----
        mine = [t for t in run.transitions if t.rkey == rd.key and t.actor == actor]
        touches = [t.t for t in mine if t.after is not None and ((t.after.get('status') or {}).get(ident)) is not None
                   and t.t <= t_gone]   # (what a process writes while it is being torn down is not a renewal)
        for x, y in zip(touches, touches[1:]):
            if y - x > life + EPS:
                oc.add('C13/record-lapsed', 'renewed-late',
                       f"{actor}: its peering record (lifetime {life}s) written at t={x:.3f} was renewed only at t={y:.3f}",
                       actor=actor)
                break
        if touches and t_gone - touches[-1] > life + 1.0 and op.t_killed is None and op.exit is None and \
                op.t_stop_requested is None:
            oc.add('C13/record-lapsed', 'not-renewed',
                   f"{actor}: still running at t={t_end:.1f} but its record (lifetime {life}s) was last written at "
                   f"t={touches[-1]:.3f}", actor=actor)
        graceful = op.exit is not None and op.exit[1] == 'returned' and op.t_killed is None
        if graceful and touches:
            final = run.cluster.get(rd, None, 'default')
            rec = ((final or {}).get('status') or {}).get(ident)
            withdrew = [t for t in mine if t.after is not None and (t.after.get('status') or {}).get(ident) is None]
            if rec is not None and not withdrew:
                oc.add('C13/record-not-removed', 'after-graceful-exit',
                       f"{actor} exited gracefully at t={op.exit[0]:.3f} but its record is still in the peering object",
                       actor=actor)
        # ---- (4) no handler succeeds twice in one process for one change ----
        for hid in ('c1', 'u1'):
            by_uid: dict[str, int] = {}
            stale_in_pause: dict[str, bool] = {}
            for c in run.calls:
                if c.op == op.opid and c.inc == op.incarnation and c.hid == hid and c.outcome == 'ok':
                    by_uid[c.uid] = by_uid.get(c.uid, 0) + 1
                    # (the step may have begun -- and begun to wait for the echo that cannot come -- while paused, and
                    # get to its handlers later, e.g. once the operator is already asked to stop)
                    t_step = max([e[1] for e in trace if e[2] == 'proc+' and e[3] == actor and e[5] == c.uid
                                  and e[1] <= c.t0], default=c.t0)
                    if _stale(run, actor, c) and any(a <= c.t0 <= b or a <= t_step <= b for a, b in must):
                        stale_in_pause[c.uid] = True
            for uid, n in by_uid.items():
                edits = sum(1 for t in run.transitions if t.uid == uid and not common.is_operator_actor(run, t.actor)
                            and t.before is not None and t.after is not None
                            and not common.essence_eq(common.ref_essence(t.before), common.ref_essence(t.after)))
                # another operator process finishing its own (older) cycle moves the shared diff base
                st_ = common.StorageRef(op.spec)
                rebased = sum(1 for t in run.transitions if t.uid == uid and t.actor != actor
                              and common.is_operator_actor(run, t.actor) and t.before is not None and t.after is not None
                              and st_.last_handled(t.before) != st_.last_handled(t.after))
                allowed = 1 if hid == 'c1' else edits + rebased
                if n > allowed:
                    oc.add('C13/handler-repeated', 'on-stale-view-while-paused' if stale_in_pause.get(uid) else hid,
                           f"{actor}: handler {hid} succeeded {n} times for {uid} in one process "
                           f"({'one creation' if hid == 'c1' else f'{edits} essential edits'})", actor=actor, uid=uid)

    # ---- (2) settled state: exactly the top running operator is active ----
    last_event = max([a['t'] for a in plan['actions'] if a['do'] in ('start', 'stop', 'kill', 'cancel')], default=0.0)
    running = [o for o in incs if o.state == 'running' and o.t_stop_requested is None]
    if t_end - last_event >= plan.get('settle', 30.0) and running and not run.step_capped:
        prios = sorted((int(o.spec.get('priority', 0)) for o in running), reverse=True)
        tie = len(prios) > 1 and prios[0] == prios[1]
        # junk records never expire on their own clock in a way that matters: strangers are long dead
        if not tie:
            top = max(running, key=lambda o: int(o.spec.get('priority', 0)))
            t_probe = t_end - 0.5
            for o in running:
                # (a stream is re-opened from time to time: inactivity, server timeouts; look at a window)
                act_any = any(a < t_end and b > t_end - 3.0 for a, b in streams.get(o.actor, []))
                act = active_at(o.actor, t_probe) and active_at(o.actor, t_probe - 2.0)
                if o is top and not act_any:
                    oc.add('C13/settled', 'top-not-active',
                           f"{o.actor} has the highest priority ({o.spec.get('priority')}) among the running operators "
                           f"{[(x.actor, x.spec.get('priority')) for x in running]} but has no open widgets stream at "
                           f"t={t_probe:.1f} ({t_end - last_event:.0f}s after the last start/stop/kill)", actor=o.actor)
                if o is not top and act:
                    oc.add('C13/settled', 'lower-active',
                           f"{o.actor} (priority {o.spec.get('priority')}) has an open widgets stream at t={t_probe:.1f} "
                           f"although {top.actor} (priority {top.spec.get('priority')}) is running", actor=o.actor)
        # dead records are cleaned up
        final = run.cluster.get(rd, None, 'default')
        for ident, rec in ((final or {}).get('status') or {}).items():
            if not isinstance(rec, dict):
                continue
            seen = _parse(rec.get('lastseen'))
            try:
                life = float(rec.get('lifetime', 60))
            except (TypeError, ValueError):
                continue
            if seen is not None and seen + life < t_end - plan.get('settle', 30.0):
                oc.add('C13/dead-record-kept', 'expired-record-remains',
                       f"the record of {ident} expired at t={seen + life:.1f} and is still in the peering object at "
                       f"t={t_end:.1f} although {[o.actor for o in running]} are running", ident=ident)
    oc.probes['probe.saw-each-other'] = saw_each_other
    oc.probes['probe.operators'] = len(incs)
    if saw_each_other:
        oc.nontrivial = True


def evaluate(plan: dict[str, Any]) -> Outcome:
    return common.evaluate_closed_loop(plan, oracle, stall_is_violation='C13/stall')
