"""
Shared pieces of the per-property checks: the evaluation scaffold, independent reference
functions (essence, progress-record decoding), history helpers, and workload generators.
"""
from __future__ import annotations

import copy
import hashlib
import json
from typing import Any, Callable, Iterable, Optional

from kopfsim import cluster as cl
from kopfsim import core, runner
from kopfsim.search import Chooser, Outcome

CHANGE_KINDS = ('create', 'update', 'delete', 'resume', 'field')

COMPONENTS = {
    'real': ['the whole kopf package from the working tree: kopf.operator() with all root tasks '
             '(observers, orchestrator, watchers, workers, processing, daemons, peering, '
             'authenticator, activities), api.request/auth/Vault, patching, storages, registries',
             'CPython asyncio (real BaseEventLoop._run_once, real timer heap, real Tasks)'],
    'stub': ['aiohttp client session/response (FakeSession/FakeResponse through kopf.AiohttpSession)',
             'Kubernetes API server (FakeCluster reference model)',
             'wall clock (datetime proxy), loop clock and selector (SimLoop)',
             'OS signals (recorded), random (seeded)',
             'executor threads of synchronous handlers: real threads, but parked and released one at a time by the simulator '
             '(kopfsim/threads.py behind settings.execution.executor); stopped.wait() and the handlers\' blocking calls are virtual'],
}

BASE_ASSUMPTIONS = [
    'FakeCluster implements the Kubernetes API conventions kopf relies on (merge/json patch, '
    'finalizers & deletionTimestamp, resourceVersion, watch semantics, status subresource)',
    'synchronous handlers run in simulated threads in a share of the plans (one thread runs at a time, hand-over only at '
    'blocking calls: no pre-emption inside a handler); process executors are out of scope',
    'call_soon FIFO order inside one loop is never permuted (as in real asyncio); schedules vary in '
    'latencies, deadline coincidences, loop stalls, tie order and which process runs',
    'sampling, not enumeration: a clean batch is evidence, not proof',
]


# --------------------------------------------------------------------------------------
# Scaffold
# --------------------------------------------------------------------------------------
_SIG_KINDS = {'h+', 'h-', 'srv', 'fault', 'op-start', 'op-exit', 'op-kill', 'op-stop', 'op-cancel',
              'watch-eof', 'watch-break', 'watch-open', 'login', 'act', 'rsp-fail', 'rsp-timeout'}


def abstract_signature(run: runner.Run) -> str:
    """Hash of the sequence of event/handler/fault kinds with times and request ids erased."""
    h = hashlib.blake2b(digest_size=10)
    for e in run.sim.trace:
        kind = e[2]
        if kind not in _SIG_KINDS:
            continue
        if kind == 'h+':
            item = (kind, e[4], e[6], e[7], e[8])
        elif kind == 'h-':
            item = (kind, e[4], e[6], e[7])
        elif kind == 'srv':
            item = (kind, e[3], str(e[4]).split('#')[0], e[5], e[7])
        elif kind == 'fault':
            item = (kind, e[4], e[5])
        else:
            item = (kind,) + tuple(x for x in e[3:6] if not isinstance(x, float))
        h.update(repr(item).encode())
    return h.hexdigest()


def evaluate_closed_loop(plan: dict[str, Any], oracle: Callable[[runner.Run, Outcome], None], *,
                         stall_is_violation: Optional[str] = None,
                         nontrivial: Optional[Callable[[runner.Run], bool]] = None,
                         before: Optional[Callable[[runner.Run], None]] = None) -> Outcome:
    oc = Outcome()
    run = runner.Run(plan)
    if before is not None:
        before(run)
    try:
        run.execute()
        oc.digest = run.sim.digest()
        oc.sim_seconds = run.sim.now
        oc.steps = run.sim.steps
        oc.counters = dict(run.sim.counters)
        oc.signature = abstract_signature(run)
        fired = any(k.startswith(('fault.', 'coincidence.')) and v for k, v in run.sim.counters.items())
        oc.nontrivial = bool(fired or (nontrivial(run) if nontrivial else False))
        if run.stalled is not None:
            if stall_is_violation:
                where = _stall_site(run.stalled)
                oc.add(stall_is_violation, f'stall@{where}',
                       f"the event loop stalled (a callback did not return within the CPU budget) at {where}",
                       stack=run.stalled[-1500:])
            else:
                oc.inconclusive = 'stall: ' + run.stalled[-400:]
        elif run.step_capped:
            oc.inconclusive = f'step cap: {run.error}'
        if run.stalled is None:
            oracle(run, oc)
        oc.summary = summarise(run)
    finally:
        run.finish()
    return oc


def _stall_site(stack: str) -> str:
    site = 'unknown'
    for line in stack.splitlines():
        line = line.strip()
        if line.startswith('File ') and '/kopf/' in line:
            parts = line.split(',')
            fname = parts[0].split('/kopf/')[-1].rstrip('"')
            func = parts[2].replace(' in ', '').strip() if len(parts) > 2 else '?'
            site = f'{fname}:{func}'
    return site


def summarise(run: runner.Run) -> dict[str, Any]:
    plan = run.plan
    return {
        'operators': [o['id'] for o in plan.get('operators', [])],
        'handlers': sum(len(o.get('handlers', [])) for o in plan.get('operators', [])),
        'objects': len(plan.get('objects', [])),
        'actions': [(round(a['t'], 3), a['do'], a.get('name') or a.get('op')) for a in plan.get('actions', [])][:40],
        'rules': len(plan.get('net', {}).get('rules', [])),
        'calls': len(run.calls),
        'writes': len(run.transitions),
        'until': plan.get('until'),
    }


# --------------------------------------------------------------------------------------
# References (written from the documentation, independent of kopf's code)
# --------------------------------------------------------------------------------------
KNOWN_KOPF_PREFIX = 'kopf.zalando.org'
LAST_APPLIED = 'kubectl.kubernetes.io/last-applied-configuration'


def kopf_prefixes(annotations: dict[str, Any]) -> set[str]:
    out = set()
    for key in annotations:
        if '/' in key:
            prefix, name = key.split('/', 1)
            if name == 'kopf-managed' or prefix == KNOWN_KOPF_PREFIX or prefix.endswith('.' + KNOWN_KOPF_PREFIX):
                out.add(prefix)
    return out


def _prune_nulls(x: Any) -> Any:
    """null == absent (Kubernetes merge semantics); applied to both sides before comparing."""
    if isinstance(x, dict):
        return {k: _prune_nulls(v) for k, v in x.items() if v is not None}
    if isinstance(x, list):
        return [_prune_nulls(v) for v in x]
    return x


def ref_essence(body: Optional[dict[str, Any]], extra_status_fields: Iterable[str] = (),
                own_prefix: Optional[str] = None) -> Optional[dict[str, Any]]:
    """Payload + labels + ordinary annotations; no status, no system metadata, no kopf annotations
    (those recognisable as such by anybody, plus those under the reading operator's own prefix)."""
    if body is None:
        return None
    ess: dict[str, Any] = {k: copy.deepcopy(v) for k, v in body.items()
                           if k not in ('apiVersion', 'kind', 'metadata', 'status')}
    meta = body.get('metadata', {}) or {}
    m: dict[str, Any] = {}
    if meta.get('labels'):
        m['labels'] = dict(meta['labels'])
    anns = meta.get('annotations') or {}
    prefixes = kopf_prefixes(anns) | ({own_prefix} if own_prefix else set())
    keep = {k: v for k, v in anns.items()
            if k != LAST_APPLIED and not ('/' in k and k.split('/', 1)[0] in prefixes)}
    if keep:
        m['annotations'] = keep
    if m:
        ess['metadata'] = m
    # fields of the status stanza that some handler is registered for are part of the essence, nothing else of it
    for path in extra_status_fields:
        parts = str(path).split('.')
        if parts[0] != 'status':
            continue
        cur: Any = body
        for p_ in parts:
            cur = cur.get(p_) if isinstance(cur, dict) else None
            if cur is None:
                break
        if cur is not None:
            dst = ess
            for p_ in parts[:-1]:
                dst = dst.setdefault(p_, {})
            dst[parts[-1]] = copy.deepcopy(cur)
    return _prune_nulls(ess)


def essence_eq(a: Any, b: Any) -> bool:
    return _prune_nulls(a) == _prune_nulls(b)


class StorageRef:
    """How one operator persists progress / last-handled state (reference decoding, short ids only)."""

    def __init__(self, opspec: dict[str, Any]) -> None:
        st = (opspec.get('settings', {}) or {}).get('storage') or {}
        self.prefix = st.get('prefix', KNOWN_KOPF_PREFIX)
        self.progress = st.get('progress', 'smart')
        self.diffbase = st.get('diffbase', 'annotations')
        self.name = st.get('name', 'kopf')
        self.finalizer = (opspec.get('settings', {}) or {}).get('finalizer', 'kopf.zalando.org/KopfFinalizerMarker')
        self.diffbase_key = st.get('diffbase_key', 'last-handled-configuration')

    def key_name(self, hid: str) -> str:
        return hid.replace('/', '.').replace('<', '_').replace('>', '_')

    def records(self, body: Optional[dict[str, Any]]) -> dict[str, dict[str, Any]]:
        """annotation-name/handler-id -> record, for all progress records of this operator."""
        out: dict[str, dict[str, Any]] = {}
        if body is None:
            return out
        if self.progress in ('annotations', 'smart', 'multi'):
            anns = (body.get('metadata', {}) or {}).get('annotations') or {}
            for key, val in anns.items():
                if not key.startswith(self.prefix + '/'):
                    continue
                name = key[len(self.prefix) + 1:]
                if name in (self.diffbase_key, 'touch-dummy', 'kopf-managed'):
                    continue
                try:
                    rec = json.loads(val)
                except Exception:
                    continue
                if isinstance(rec, dict) and ('started' in rec or 'retries' in rec or 'success' in rec
                                              or 'failure' in rec or 'purpose' in rec):
                    out[name] = rec
        if self.progress in ('status', 'smart', 'multi'):
            prog = ((body.get('status') or {}).get(self.name) or {}).get('progress') or {}
            for hid, rec in prog.items():
                if isinstance(rec, dict):
                    out.setdefault(self.key_name(hid), rec)
        return out

    def record_for(self, body: Optional[dict[str, Any]], hid: str) -> Optional[dict[str, Any]]:
        return self.records(body).get(self.key_name(hid))

    def last_handled(self, body: Optional[dict[str, Any]]) -> Optional[dict[str, Any]]:
        if body is None:
            return None
        if self.diffbase in ('annotations', 'multi'):
            anns = (body.get('metadata', {}) or {}).get('annotations') or {}
            val = anns.get(f'{self.prefix}/{self.diffbase_key}')
            if val is not None:
                try:
                    return json.loads(val)  # type: ignore[no-any-return]
                except Exception:
                    return None
        if self.diffbase in ('status', 'multi'):
            val = ((body.get('status') or {}).get(self.name) or {}).get('last-handled-configuration')
            if val is not None:
                try:
                    return json.loads(val)  # type: ignore[no-any-return]
                except Exception:
                    return None
        return None

    def has_finalizer(self, body: Optional[dict[str, Any]]) -> bool:
        return body is not None and self.finalizer in ((body.get('metadata') or {}).get('finalizers') or [])


def late_echoes(run: runner.Run, min_delay: float) -> list[tuple[Any, float, float]]:
    """(object name, t_written, t_delivered) for every write of an operator whose echo reached that operator's
    own watch stream `min_delay` or more after the write -- whatever held it back: a delay injected into this very
    event, or one injected into an earlier event of the same (FIFO) connection."""
    cached = getattr(run, '_late_echoes', None)
    if cached is None:
        conn_actor: dict[Any, str] = {}
        written: dict[tuple[str, Any, Any], float] = {}     # (operator, name, rv) -> t
        cached = []
        for e in run.sim.trace:
            if e[2] == 'watch-open':
                conn_actor[e[3]] = op_of(e[4])
            elif e[2] == 'srv' and e[3] in ('patch', 'update') and len(e) > 9 and is_operator_actor(run, e[4]):
                written[(op_of(e[4]), e[7], str(e[9]))] = e[1]
            elif e[2] == 'watch-ev' and len(e) > 7:
                t_w = written.pop((conn_actor.get(e[3], ''), e[5], str(e[7])), None)
                if t_w is not None:
                    cached.append((e[5], t_w, e[1]))
        # echoes that never came at all (held back behind a delayed event until the stream was closed: a pause, an exit)
        # -- counted for as long as the writing process lived on (it is that process which then acts blind)
        last_seen: dict[str, float] = {}
        writer: dict[tuple[str, Any, Any], str] = {}
        for e in run.sim.trace:
            if e[2] in ('proc+', 'proc-', 'h+', 'h-') and len(e) > 3:
                last_seen[str(e[3])] = e[1]
            elif e[2] == 'srv' and e[3] in ('patch', 'update') and len(e) > 9 and is_operator_actor(run, e[4]):
                writer[(op_of(e[4]), e[7], str(e[9]))] = str(e[4])
        for key_, t_w in written.items():
            cached.append((key_[1], t_w, last_seen.get(writer.get(key_, ''), t_w)))
        run._late_echoes = cached  # type: ignore[attr-defined]
    return [x for x in cached if x[2] - x[1] >= min_delay]


def finished(rec: Optional[dict[str, Any]]) -> bool:
    return bool(rec and (rec.get('success') or rec.get('failure')))


# --------------------------------------------------------------------------------------
# History helpers
# --------------------------------------------------------------------------------------
def op_of(actor: Any) -> str:
    return str(actor).split('#')[0]


def is_operator_actor(run: runner.Run, actor: Any) -> bool:
    return op_of(actor) in {o['id'] for o in run.plan.get('operators', [])}


def disruptive_faults(run: runner.Run) -> dict[str, int]:
    """Fault kinds that the properties themselves name as excuses (crashes, lost responses, ...)."""
    c = run.sim.counters
    return {k: v for k, v in c.items() if v and k.startswith('fault.')}


def plan_is_fault_free(plan: dict[str, Any]) -> bool:
    if plan.get('net', {}).get('rules'):
        return False
    for a in plan.get('actions', []):
        if a['do'] in ('kill', 'stall', 'revoke', 'close-streams', 'stream-error', 'compact', 'rule',
                       'stop', 'cancel'):
            return False
    for t in plan.get('triggers', []):
        for a in t.get('actions', []):
            if a['do'] in ('kill', 'stall', 'revoke', 'close-streams', 'stream-error', 'compact',
                           'rule', 'stop', 'cancel'):
                return False
    return True


def spec_of(run: runner.Run, opid: str) -> dict[str, Any]:
    return next(o for o in run.plan['operators'] if o['id'] == opid)


def handler_specs(run: runner.Run, opid: str) -> dict[str, dict[str, Any]]:
    return {h['id']: h for h in spec_of(run, opid).get('handlers', [])}


# --------------------------------------------------------------------------------------
# Workload generation helpers
# --------------------------------------------------------------------------------------
def gen_script(ch: Chooser, *, max_failures: int = 3, delays: tuple[float, ...] = (0.0, 0.1, 0.5, 1.0, 2.0, 3.0),
               durs: tuple[float, ...] = (0.0, 0.0, 0.01, 0.2, 1.0), final: Optional[str] = None,
               allow_perm: bool = True, allow_exc: bool = True) -> list[dict[str, Any]]:
    """Finitely many failures, then a final outcome that repeats."""
    script: list[dict[str, Any]] = []
    for _ in range(ch.int(0, max_failures)):
        kinds = ['temp'] + (['exc'] if allow_exc else [])
        step = {'do': ch.choice(kinds), 'dur': ch.choice(durs)}
        if step['do'] == 'temp':
            step['delay'] = ch.choice(delays)
        script.append(step)
    fin = final or ch.weighted([('ok', 8)] + ([('perm', 1)] if allow_perm else []))
    last: dict[str, Any] = {'do': fin, 'dur': ch.choice(durs)}
    if fin == 'ok' and ch.bool(0.4):
        last['result'] = ch.choice([{'v': ch.int(0, 9)}, 'done', 7])
    if ch.bool(0.2):
        last['patch'] = {'status': {'note': f'n{ch.int(0, 99)}'}}
    script.append(last)
    return script


def widget_body(name: str, ch: Chooser, *, labels: bool = True) -> dict[str, Any]:
    body: dict[str, Any] = {'metadata': {'name': name}, 'spec': {'a': ch.int(0, 3)}}
    if labels and ch.bool(0.5):
        body['metadata']['labels'] = {'tier': ch.choice(['x', 'y'])}
    if ch.bool(0.3):
        body['metadata']['annotations'] = {'note': ch.choice(['p', 'q']), 'example.com/own': 'v'}
    if ch.bool(0.3):
        body['spec']['nested'] = {'k': [1, {'z': None}], 'e': {}}
    if ch.bool(0.2):
        body['extra'] = {'ключ': 'значение ☃'}
    return body


def base_settings(ch: Chooser) -> dict[str, Any]:
    return {
        'idle_timeout': ch.choice([0.05, 0.5, 2.0, 5.0]),
        'consistency_timeout': ch.choice([0.5, 1.0, 5.0]),
        'error_backoffs': [0.1, 0.2],
        'default_backoff': ch.choice([0.5, 1.0, 2.0]),
        'error_delays': [0.5, 1.0, 2.0],
        'reconnect_backoff': 0.1,
        'ultimate_exiting_timeout': None,
    }


def gen_storage(ch: Chooser, *, allow_status: bool = True) -> Optional[dict[str, Any]]:
    kind = ch.weighted([(None, 4), ('annotations', 2), ('smart', 1)] + ([('status', 2)] if allow_status else []))
    if kind is None:
        return None
    st: dict[str, Any] = {'progress': kind}
    if kind == 'status':
        st['diffbase'] = ch.choice(['status', 'annotations'])
    if kind in ('annotations', 'smart') and ch.bool(0.3):
        st['prefix'] = ch.choice(['ops.example.com', 'kopf.zalando.org', 'my-op.kopf.zalando.org'])
    if ch.bool(0.3):
        st['v1'] = False
    return st


def snapshots(run: runner.Run) -> dict[tuple[Any, Any], dict[str, Any]]:
    """(uid, resourceVersion) -> the object as the server stored it at that version."""
    snaps: dict[tuple[Any, Any], dict[str, Any]] = {}
    for tr in run.transitions:
        for obj in (tr.before, tr.after):
            if obj is not None:
                snaps[(obj['metadata'].get('uid'), obj['metadata'].get('resourceVersion'))] = obj
    return snaps
