"""
C11 -- Handler error policy: retry delays, permanence, retries/timeout limits.
"""
from __future__ import annotations

from typing import Any, Optional

from kopfsim import runner
from kopfsim.props import changes, common, spawning
from kopfsim.search import Chooser, Outcome

ID = 'C11'
TITLE = 'Handler error policy: retry delays, permanence, retries/timeout limits'
LEVEL = 'exploration'
RULE = ('change handlers and sub-handlers (also across kills/stops/restarts at drawn positions), timers and daemons, '
        'each with drawn errors mode, retries, timeout, backoff and an exception script (temporary with delay / '
        'permanent / arbitrary). Per attempt sequence: spacing >= requested delay or backoff; nothing after a permanent '
        'outcome; ignored => done; attempts <= retries; no attempt starts later than timeout after the first; '
        'afterwards the handler is recorded failed and never retried. Distinct = abstract trace signature; '
        'non-trivial = a limit (retries/timeout) or a permanent outcome actually ended a handler, or a restart cut a '
        'retry sequence.')
COMPONENTS = common.COMPONENTS
ASSUMPTIONS = common.BASE_ASSUMPTIONS + [
    'an attempt whose processing step was cut by a kill/stop (its record never persisted) is not counted against limits',
    'activities (startup/cleanup/login) are exercised in C20\'s workload, not here',
]
EPS = 0.005


def gen_plan(ch: Chooser, tier: str) -> dict[str, Any]:
    mode = ch.weighted([('changes', 6), ('spawning', 3)])
    if mode == 'changes':
        restarts = ch.bool(0.5)
        plan = changes.gen_change_plan(ch, faults=False, restarts=restarts, subs=ch.bool(0.3), limits=True,
                                       max_failures=5, edits=(0, 4), deletes=ch.bool(0.4),
                                       nonessential=False, lifecycles=True)
        plan['mode'] = 'changes'
        if restarts and ch.bool(0.4):
            # clock jumps between the incarnations of the process (the wall clock of a restarted pod on another node):
            # persisted 'started'/'delayed' stamps are then read against a shifted clock
            plan['operators'][0]['skews'] = [0.0] + [ch.choice([-0.4, 0.4, 1.5, 0.0]) for _ in range(4)]
        return plan
    plan = spawning.gen_spawning_plan(ch, daemons=(0, 2), timers=(1, 2), pauses=False, exits=False, max_objects=2,
                                      sync_share=ch.choice([0.0, 0.0, 0.5]))
    for h in plan['operators'][0]['handlers']:
        o = h['opts']
        if ch.bool(0.6):
            o['retries'] = ch.int(1, 4)
        if ch.bool(0.4):
            o['timeout'] = ch.choice([0.5, 2.0, 5.0])
        if ch.bool(0.4):
            o['errors'] = ch.choice(['temporary', 'permanent', 'ignored'])
        if h['kind'] == 'timer':
            # more failures in timer scripts
            for step in h['script']:
                if ch.bool(0.4):
                    step['do'] = ch.choice(['temp', 'exc', 'perm'])
                    step['delay'] = ch.choice([0.2, 1.0])
        if h['kind'] == 'daemon' and ch.bool(0.6):
            h['daemon'] = {'mode': ch.choice(['raise', 'temp']), 'after': ch.choice([0.1, 0.5]),
                           'delay': ch.choice([0.3, 1.0])}
    if ch.bool(0.35):
        # API errors on the patches that deliver the attempts' own writes (escalated at once: no client-side retries):
        # an attempt whose outcome is final must stay final whatever happens to its patch
        plan['operators'][0]['settings']['error_backoffs'] = []
        for h in plan['operators'][0]['handlers']:
            if h['kind'] == 'timer':
                for k, step in enumerate(h['script']):
                    if ch.bool(0.6):
                        step['patch'] = {'status': {h['id']: k}}
        plan['net']['rules'].append({'match': {'kind': 'widgets', 'method': 'PATCH', 'ctype': 'merge'},
                                     'nth': sorted(ch.sample(list(range(1, 12)), ch.int(1, 3))),
                                     'action': {'kind': 'status', 'status': ch.choice([500, 422, 403])}})
    timers_ = [h for h in plan['operators'][0]['handlers'] if h['kind'] == 'timer']
    if timers_ and ch.bool(0.3):
        # targeted timing: a reason to stop the timer (the label goes) arrives exactly while the patch of its final
        # failure is in flight; the object matches again later -- "failed for good" must survive the respawn
        h = ch.choice(timers_)
        h['opts']['labels'] = dict(spawning.RUN_LABEL)
        h['opts'].pop('idle', None)
        h['opts'].setdefault('interval', 1.0)
        k = ch.int(0, 1)
        h['script'] = [{'do': 'ok', 'dur': 0.0}] * k + [{'do': 'perm', 'dur': ch.choice([0.0, 0.2]), 'patch': {'status': {'final': 1}}}] + \
            [{'do': 'ok', 'dur': 0.0}]
        names_ = sorted({o['body']['metadata']['name'] for o in plan['objects']} |
                        {a['body']['metadata']['name'] for a in plan['actions'] if a['do'] == 'create'})
        name = ch.choice(names_)
        plan['actions'].append({'t': 0.0, 'do': 'patch', 'name': name, 'patch': {'metadata': {'labels': {'run': 'yes'}}}})
        plan['actions'].sort(key=lambda a: a['t'])
        plan.setdefault('triggers', []).append(
            {'on': {'what': 'h-', 'hid': h['id'], 'name': name, 'n': k},
             'actions': [{'do': 'patch', 'name': name, 'patch': {'metadata': {'labels': {'run': 'no'}}},
                          'delay': ch.choice([0.0, 0.0005, 0.002])},
                         {'do': 'patch', 'name': name, 'patch': {'metadata': {'labels': {'run': 'yes'}}},
                          'delay': ch.choice([0.5, 3.0])}]})
    plan['mode'] = 'spawning'
    plan['until'] = plan['horizon'] + 30.0
    return plan


# wall-clock offset per incarnation of the operator in the run under judgement (clock-jump fault; set by oracle())
SKEWS: dict[int, float] = {}


def _check_sequence(oc: Outcome, what: str, uid: str, hid: str, h: dict[str, Any], calls: list[runner.Call],
                    default_backoff: float, counted: Optional[list[bool]] = None,
                    first_start: Optional[float] = None) -> bool:
    """The laws of one retry sequence of one handler. Returns True if a limit or a permanent outcome ended it."""
    o = h.get('opts', {})
    mode = o.get('errors') or 'temporary'
    backoff = float(o.get('backoff', default_backoff))
    retries = o.get('retries')
    timeout = o.get('timeout')
    counted = counted if counted is not None else [True] * len(calls)
    ended = False
    script = h.get('script', [])
    for i, c in enumerate(calls):
        nxt = calls[i + 1] if i + 1 < len(calls) else None
        if c.t1 is None:
            continue
        final = c.outcome in ('ok', 'perm') or (c.outcome == 'exc' and mode in ('permanent', 'ignored'))
        if final and counted[i] and nxt is not None:
            oc.add('C11/retried-after-final', f'{what}:{c.outcome}:{mode}',
                   f"{what} {hid} of {uid} was invoked again at t={nxt.t0:.4f} after its final outcome "
                   f"{c.outcome!r} (errors={mode}) at t={c.t1:.4f}", uid=uid, hid=hid)
            ended = True
            break
        if final and c.outcome != 'ok':
            ended = True
        if nxt is not None and c.outcome in ('temp', 'exc') and counted[i]:
            if h['kind'] == 'daemon':
                want = float(h['daemon'].get('delay', 1.0)) if c.outcome == 'temp' else backoff
            else:
                step = runner._script_step(script, c.n) if 'scripts' not in h else {}
                want = float(step.get('delay', 1.0)) if c.outcome == 'temp' else backoff
            if nxt.t0 < c.t1 + want - EPS - max(0.0, SKEWS.get(nxt.inc, 0.0) - SKEWS.get(c.inc, 0.0)):
                oc.add('C11/too-soon', f'{what}:{c.outcome}',
                       f"{what} {hid} of {uid}: attempt ended at t={c.t1:.4f} with {c.outcome!r}, next attempt at "
                       f"t={nxt.t0:.4f}, i.e. {nxt.t0 - c.t1:.4f}s < the requested {want}s", uid=uid, hid=hid)
    n_counted = sum(1 for ok in counted if ok)
    if retries is not None:
        # attempts that were persisted count; one un-persisted attempt may follow each cut
        allowed = retries + sum(1 for ok in counted if not ok)
        if len(calls) > allowed:
            oc.add('C11/retries-exceeded', what,
                   f"{what} {hid} of {uid} was invoked {len(calls)} times (retry kwargs {[c.retry for c in calls]}) "
                   f"with retries={retries}", uid=uid, hid=hid)
        if n_counted >= retries:
            ended = True
    if timeout is not None and calls:
        t0 = first_start if first_start is not None else calls[0].t0
        for c in calls[1:]:
            if c.t0 > t0 + timeout + EPS + max(0.0, SKEWS.get(calls[0].inc, 0.0) - SKEWS.get(c.inc, 0.0)) and all(counted[:calls.index(c)]):
                oc.add('C11/timeout-exceeded', what,
                       f"{what} {hid} of {uid}: an attempt started at t={c.t0:.4f}, {c.t0 - t0:.4f}s after the first "
                       f"one (t={t0:.4f}) with timeout={timeout}", uid=uid, hid=hid)
                break
        if calls[-1].t1 is not None and calls[-1].t1 >= t0 + timeout - 1.0:
            ended = True
    return ended


def oracle(run: runner.Run, oc: Outcome) -> None:
    opid = 'op1'
    spec = common.spec_of(run, opid)
    hspecs = common.handler_specs(run, opid)
    default_backoff = float(spec['settings'].get('default_backoff', 60.0))
    st = common.StorageRef(spec)
    limited = 0
    SKEWS.clear()
    for k_, sk_ in enumerate(spec.get('skews') or []):
        SKEWS[k_ + 1] = float(sk_)
    if run.plan.get('mode') == 'changes':
        snaps = common.snapshots(run)
        steps = changes.extract_steps(run)
        allspecs: dict[str, dict[str, Any]] = dict(hspecs)
        for hid, h in hspecs.items():
            for sub in h.get('subs', []):
                allspecs[f"{hid}/{sub['id']}"] = dict(sub, kind=h['kind'], opts=sub.get('opts', {}))
        for (op, uid), lst in steps.items():
            for cyc in changes.segment_cycles(st, lst, snaps, uid):
                # An object deleted under a running handler: the step's write meets a 404 and is dropped silently
                # (by design); the events still queued for it are then processed on outdated records.
                seq_lo = cyc[0].seq0
                seq_hi = cyc[-1].seq1 if cyc[-1].seq1 is not None else float('inf')
                if any(e[2] == 'rsp' and e[4] == 404 and seq_lo <= e[0] <= seq_hi for e in run.sim.trace):
                    continue
                by_h: dict[str, list[tuple[runner.Call, bool]]] = {}
                for s in cyc:
                    persisted = s.how == 'returned' and bool(s.writes)  # the attempt's record reached the server
                    for c in s.calls:
                        if c.hkind in common.CHANGE_KINDS:
                            by_h.setdefault(c.hid, []).append((c, persisted))
                for hid, pairs in by_h.items():
                    h = allspecs.get(hid)
                    if h is not None and h.get('subs'):
                        # parents are re-invoked for their children by design, and each such re-entry counts as an
                        # attempt: with retries=N the parent is entered at most N times (un-persisted entries aside)
                        n_ = h.get('opts', {}).get('retries')
                        if n_ is not None and len(pairs) > n_ + sum(1 for _, p in pairs if not p):
                            oc.add('C11/retries-exceeded', 'parent',
                                   f"handler {hid} of {uid} (with sub-handlers) was entered {len(pairs)} times (retry kwargs "
                                   f"{[c.retry for c, _ in pairs]}) with retries={n_}", uid=uid, hid=hid)
                        continue
                    if h is None:
                        continue
                    calls = [c for c, _ in pairs]
                    if _check_sequence(oc, 'handler', uid, hid, h, calls, default_backoff,
                                       counted=[p for _, p in pairs]):
                        limited += 1
                    # the verdict recorded for a final outcome: success for ok and for an ignored error, failure
                    # for a permanent one (visible whenever the cycle is not closed -- purged -- by the same write)
                    mode_h = (h.get('opts', {}).get('errors') or 'temporary')
                    for s in cyc:
                        if s.how != 'returned' or not s.writes:
                            continue
                        for c in s.calls:
                            if c.hid != hid or c.hkind not in common.CHANGE_KINDS:
                                continue
                            want_verdict = None
                            if c.outcome == 'ok' or (c.outcome == 'exc' and mode_h == 'ignored'):
                                want_verdict = 'success'
                            elif c.outcome == 'perm' or (c.outcome == 'exc' and mode_h == 'permanent'):
                                want_verdict = 'failure'
                            recs_ = [st.record_for(w.after, hid) for w in s.writes if w.after is not None]
                            recs_ = [r for r in recs_ if r is not None]
                            if want_verdict is None:
                                # a failed attempt that is to be retried (or has run out of attempts) is never a success
                                if c.outcome in ('temp', 'exc') and recs_ and recs_[-1].get('success') \
                                        and not allspecs.get(hid, {}).get('subs'):
                                    oc.add('C11/wrong-verdict', f'{c.outcome}:{mode_h}:recorded-as-success',
                                           f"handler {hid} of {uid} ended its attempt #{c.n} with {c.outcome!r} under "
                                           f"errors={mode_h}; it must be retried or recorded as failed, but the record says "
                                           f"success: {recs_[-1]}", uid=uid, hid=hid)
                                continue
                            if recs_ and common.finished(recs_[-1]) and not recs_[-1].get(want_verdict):
                                oc.add('C11/wrong-verdict', f'{c.outcome}:{mode_h}',
                                       f"handler {hid} of {uid} ended its attempt #{c.n} with {c.outcome!r} under "
                                       f"errors={mode_h} (retries={h.get('opts', {}).get('retries')}, timeout="
                                       f"{h.get('opts', {}).get('timeout')}); it must be recorded as {want_verdict}, "
                                       f"but the record is {recs_[-1]}", uid=uid, hid=hid)
                    # once out of attempts, the record says "failed" and the handler is never invoked again:
                    o = h.get('opts', {})
                    if o.get('retries') is not None and len(calls) >= o['retries'] and all(p for _, p in pairs) \
                            and calls[-1].outcome in ('temp', 'exc') and (o.get('errors') or 'temporary') == 'temporary':
                        last_step = next(s for s in cyc if calls[-1] in s.calls)
                        if last_step.writes and last_step.how == 'returned':
                            recs = [st.record_for(w.after, hid) for w in last_step.writes if w.after is not None]
                            purged = not st.records(last_step.writes[-1].after)
                            if not purged and not any(common.finished(r) and r.get('failure') for r in recs):
                                oc.add('C11/not-recorded-failed', 'retries',
                                       f"handler {hid} of {uid} used up retries={o['retries']} but is not recorded "
                                       f"as failed: {recs[-1] if recs else None}", uid=uid, hid=hid)
    else:
        by_inst: dict[tuple[int, str, str], list[runner.Call]] = {}
        for c in run.calls:
            if c.hkind in ('daemon', 'timer') and c.uid is not None:
                by_inst.setdefault((c.inc, c.uid, c.hid), []).append(c)
        disturb: dict[str, list[float]] = {}
        for t in run.transitions:
            if not common.is_operator_actor(run, t.actor) and t.uid is not None:
                disturb.setdefault(t.uid, []).append(t.t)
        for (inc, uid, hid), calls in by_inst.items():
            h = hspecs[hid]
            # split into retry sequences: a success (timers) or a respawn (label toggles) starts a new one
            seq: list[runner.Call] = []
            seqs: list[list[runner.Call]] = []
            mode_ = h.get('opts', {}).get('errors') or 'temporary'
            for c in calls:
                tick_done = h['kind'] == 'timer' and (seq and (seq[-1].outcome == 'ok' or
                                                               (seq[-1].outcome == 'exc' and mode_ == 'ignored')))
                if seq and (tick_done or
                            any(seq[-1].t0 - 0.2 <= t <= c.t0 for t in disturb.get(uid, []))):
                    seqs.append(seq)
                    seq = []
                seq.append(c)
            if seq:
                seqs.append(seq)
            for sq in seqs:
                if _check_sequence(oc, h['kind'], uid, hid, h, sq, default_backoff):
                    limited += 1
            # a timer that has failed for good is stopped for the lifetime of the process: it is neither retried nor
            # started anew when the object is matched again later (whatever was going on while its outcome was patched)
            if h['kind'] == 'timer':
                for k_, c in enumerate(calls[:-1]):
                    if c.outcome == 'perm' or (c.outcome == 'exc' and mode_ == 'permanent'):
                        nxt_ = calls[k_ + 1]
                        oc.add('C11/retried-after-final', 'timer-started-anew-after-permanent',
                               f"timer {hid} of {uid} failed for good ({c.outcome!r}, errors={mode_}) at t={c.t1}; it was "
                               f"invoked again at t={nxt_.t0:.4f} (retry={nxt_.retry}) in the same operator process",
                               uid=uid, hid=hid)
                        break
            # an ignored error counts as done: the timer goes on ticking
            o_ = h.get('opts', {})
            last = calls[-1]
            interval = o_.get('interval')
            if h['kind'] == 'timer' and mode_ == 'ignored' and last.outcome == 'exc' and last.t1 is not None \
                    and interval is not None and o_.get('idle') is None:
                op_ = run.op(opid)
                rd_ = run.rdef('widgets')
                obj = next((x for x in run.cluster.list(rd_, None) if x['metadata']['uid'] == uid), None)
                quiet = not any(t >= last.t0 - 0.2 for t in disturb.get(uid, []))
                if obj is not None and obj['metadata'].get('deletionTimestamp') is None and spawning.matches(h, obj) \
                        and quiet and op_ is not None and op_.alive and inc == op_.incarnation \
                        and run.sim.now > last.t1 + 2 * float(interval) + 1.0:
                    oc.add('C11/wrong-verdict', 'timer-stopped-after-ignored-error',
                           f"timer {hid} of {uid} (errors=ignored, retries={o_.get('retries')}, timeout={o_.get('timeout')}) "
                           f"raised an arbitrary error at t={last.t1:.3f} and never ran again until t={run.sim.now:.1f} "
                           f"(interval={interval})", uid=uid, hid=hid)
    oc.probes['probe.limit-or-permanent-ended-a-handler'] = limited
    if limited:
        oc.nontrivial = True


def evaluate(plan: dict[str, Any]) -> Outcome:
    return common.evaluate_closed_loop(plan, oracle)
