"""
The daemon/timer workload family (C06, C09, C10 share it).
"""
from __future__ import annotations

from typing import Any, Optional

from kopfsim.props import common
from kopfsim.search import Chooser

RUN_LABEL = {'run': 'yes'}


def matches(hspec: dict[str, Any], body: Optional[dict[str, Any]]) -> bool:
    if body is None:
        return False
    want = (hspec.get('opts') or {}).get('labels')
    if not want:
        return True
    labels = (body.get('metadata') or {}).get('labels') or {}
    return all(labels.get(k) == v for k, v in want.items())


def gen_daemon(ch: Chooser, hid: str, *, allow_hang: bool = False, sync_share: float = 0.0) -> dict[str, Any]:
    mode = ch.weighted([('obey', 4), ('poll', 2), ('cancel', 3), ('ignore', 2), ('exit', 2), ('raise', 1), ('temp', 1)])
    opts: dict[str, Any] = {}
    if ch.bool(0.6):
        opts['cancellation_backoff'] = ch.choice([0.3, 1.0, 2.0])
    if mode in ('cancel', 'ignore') and not allow_hang:
        opts['cancellation_timeout'] = ch.choice([0.5, 1.0, 3.0])
    elif ch.bool(0.5):
        opts['cancellation_timeout'] = ch.choice([0.5, 1.0, 3.0])
    if ch.bool(0.3):
        opts['cancellation_polling'] = ch.choice([0.3, 1.0])
    if ch.bool(0.3):
        opts['initial_delay'] = ch.choice([0.5, 2.0])
    if ch.bool(0.4):
        opts['labels'] = dict(RUN_LABEL)
    if ch.bool(0.3):
        opts['backoff'] = ch.choice([0.5, 2.0])
    behaviour: dict[str, Any] = {'mode': mode}
    if mode == 'poll':
        behaviour['poll'] = ch.choice([0.1, 0.5])
    if mode == 'obey' and ch.bool(0.3):
        behaviour['exit_delay'] = ch.choice([0.05, 0.5])
    if mode == 'ignore':
        behaviour['hold'] = ch.choice([0.2, 2.0, 6.0])
    if mode in ('exit', 'raise', 'temp'):
        behaviour['after'] = ch.choice([0.1, 1.0, 4.0])
        behaviour['delay'] = ch.choice([0.5, 2.0])
    if ch.bool(0.2):
        behaviour['result'] = {'seen': 1}
    if sync_share and ch.bool(sync_share):
        # a synchronous daemon (runs in a simulated thread; cannot be cancelled, only flagged and abandoned)
        behaviour['sync'] = True
        if mode in ('cancel', 'ignore'):
            behaviour['mode'] = 'ignore'
            behaviour['hold'] = ch.choice([0.2, 2.0, 6.0])
    return {'id': hid, 'kind': 'daemon', 'opts': opts, 'daemon': behaviour}


def gen_timer(ch: Chooser, hid: str, sync_share: float = 0.0) -> dict[str, Any]:
    opts: dict[str, Any] = {}
    shape = ch.weighted([('interval', 5), ('idle', 2), ('both', 2), ('neither', 1)])
    if shape in ('interval', 'both'):
        opts['interval'] = ch.choice([0.5, 1.0, 2.0, 3.0])
        if ch.bool(0.4):
            opts['sharp'] = True
    if shape in ('idle', 'both'):
        opts['idle'] = ch.choice([0.5, 1.5, 4.0])
    if ch.bool(0.4):
        opts['initial_delay'] = ch.choice([0.3, 1.0, 2.5])
    if ch.bool(0.3):
        opts['labels'] = dict(RUN_LABEL)
    if ch.bool(0.4):
        opts['backoff'] = ch.choice([0.3, 1.0, 2.5])
    script = []
    for _ in range(ch.int(1, 6)):
        kind = ch.weighted([('ok', 6), ('temp', 2), ('exc', 1)])
        step: dict[str, Any] = {'do': kind, 'dur': ch.choice([0.0, 0.0, 0.1, 0.7, 1.0, 2.5])}
        if kind == 'temp':
            step['delay'] = ch.choice([0.2, 1.0, 2.0])
        if kind == 'ok' and ch.bool(0.2):
            step['result'] = {'tick': ch.int(0, 2)}
        script.append(step)
    script.append({'do': 'ok', 'dur': ch.choice([0.0, 0.1, 1.0])})
    spec: dict[str, Any] = {'id': hid, 'kind': 'timer', 'opts': opts, 'script': script}
    if sync_share and ch.bool(sync_share):
        spec['sync'] = True
    return spec


def gen_spawning_plan(ch: Chooser, *, daemons: tuple[int, int] = (1, 3), timers: tuple[int, int] = (0, 2),
                      pauses: bool = True, exits: bool = True, delete_handlers: bool = False,
                      foreign_finalizers: bool = False, max_objects: int = 3,
                      horizon: Optional[float] = None, allow_hang: bool = False,
                      sync_share: float = 0.0) -> dict[str, Any]:
    settings = common.base_settings(ch)
    settings['cancellation_polling'] = ch.choice([0.5, 2.0])
    if ch.bool(0.3):
        settings['instant_exit_timeout'] = ch.choice([0.01, 0.1])
    handlers: list[dict[str, Any]] = []
    for i in range(ch.int(*daemons)):
        handlers.append(gen_daemon(ch, f'dm{i + 1}', allow_hang=allow_hang, sync_share=sync_share))
    for i in range(ch.int(*timers)):
        handlers.append(gen_timer(ch, f'tm{i + 1}', sync_share=sync_share))
    if delete_handlers:
        for i in range(ch.int(0, 2)):
            opts: dict[str, Any] = {}
            if ch.bool(0.3):
                opts['optional'] = True
            if ch.bool(0.3):
                opts['labels'] = dict(RUN_LABEL)
            handlers.append({'id': f'd{i + 1}', 'kind': 'delete', 'opts': opts,
                             'script': common.gen_script(ch, max_failures=2, allow_perm=True)})
    horizon = horizon if horizon is not None else ch.choice([15.0, 30.0])
    nobj = ch.int(1, max_objects)
    names = [f'w{i}' for i in range(nobj)]
    objects = []
    actions: list[dict[str, Any]] = [{'t': 0.0, 'do': 'start', 'op': 'op1'}]
    for name in names:
        body: dict[str, Any] = {'metadata': {'name': name}, 'spec': {'a': 0}}
        if ch.bool(0.7):
            body['metadata']['labels'] = dict(RUN_LABEL)
        if ch.bool(0.5):
            objects.append({'kind': 'widgets', 'body': body})
        else:
            actions.append({'t': ch.float(0.0, horizon * 0.4), 'do': 'create', 'body': body})
    counter = 0
    for _ in range(ch.int(1, 8)):
        counter += 1
        name = ch.choice(names)
        kind = ch.weighted([('toggle-on', 3), ('toggle-off', 3), ('spec', 3), ('status', 1)])
        t = ch.float(0.5, horizon)
        if kind == 'toggle-on':
            actions.append({'t': t, 'do': 'patch', 'name': name, 'patch': {'metadata': {'labels': {'run': 'yes'}}}})
        elif kind == 'toggle-off':
            actions.append({'t': t, 'do': 'patch', 'name': name, 'patch': {'metadata': {'labels': {'run': 'no'}}}})
            if ch.bool(0.5):
                # re-match shortly after (possibly before the stopping instance has fully ended)
                actions.append({'t': round(t + ch.choice([0.001, 0.05, 0.5, 2.0]), 6), 'do': 'patch', 'name': name,
                                'patch': {'metadata': {'labels': {'run': 'yes'}}}})
        elif kind == 'spec':
            actions.append({'t': t, 'do': 'patch', 'name': name, 'patch': {'spec': {'a': counter}}})
        else:
            actions.append({'t': t, 'do': 'patch', 'name': name, 'patch': {'status': {'o': counter}},
                            'actor': 'controller'})
    fin = 'kopf.zalando.org/KopfFinalizerMarker'
    for name in names:
        how = ch.weighted([(None, 4), ('graceful', 3), ('early', 1), ('forced', 2)])
        if how is None:
            continue
        t = ch.float(horizon * 0.3, horizon)
        if how == 'graceful':
            actions.append({'t': t, 'do': 'delete', 'name': name})
        elif how == 'early':
            # created and deleted before the framework's finalizer can land
            newname = name + 'e'
            actions.append({'t': t, 'do': 'create',
                            'body': {'metadata': {'name': newname, 'labels': dict(RUN_LABEL)}, 'spec': {'a': 0}}})
            actions.append({'t': round(t + ch.choice([0.0005, 0.002, 0.01]), 6), 'do': 'delete', 'name': newname})
        else:
            actions.append({'t': t, 'do': 'edit', 'edit': 'remove-finalizer', 'name': name, 'value': fin,
                            'actor': 'admin'})
            actions.append({'t': round(t + ch.choice([0.0, 0.001, 0.05]), 6), 'do': 'delete', 'name': name})
        if foreign_finalizers and ch.bool(0.5):
            actions.append({'t': ch.float(0.5, t), 'do': 'edit', 'edit': 'add-finalizer', 'name': name,
                            'value': 'other.example.com/hold', 'pos': ch.choice([0, None]), 'actor': 'controller'})
            actions.append({'t': round(t + ch.choice([1.0, 5.0, 12.0]), 6), 'do': 'edit', 'edit': 'remove-finalizer',
                            'name': name, 'value': 'other.example.com/hold', 'actor': 'controller'})
    plan: dict[str, Any] = {}
    opspec: dict[str, Any] = {'id': 'op1', 'settings': settings, 'handlers': handlers}
    paused = pauses and ch.bool(0.35)
    if paused:
        opspec.update(standalone=False, peering_name='default', priority=10)
        settings['peering_lifetime'] = 20
        plan['peering'] = {'objects': [{'kind': 'clusterkopfpeerings', 'name': 'default'}]}
        t = ch.float(2.0, horizon * 0.7)
        life = ch.choice([3, 8, 60])
        actions.append({'t': t, 'do': 'peer-set', 'identity': 'rival', 'priority': ch.choice([10, 100]),
                        'lifetime': life})
        if life == 60 or ch.bool(0.5):
            actions.append({'t': round(t + ch.choice([0.5, 3.0, 7.0]), 6), 'do': 'peer-clear', 'identity': 'rival'})
    else:
        opspec['standalone'] = True
    end = ch.weighted([('run', 3), ('stop', 3), ('cancel', 1)]) if exits else 'run'
    t_end = horizon + ch.choice([5.0, 15.0])
    if end != 'run':
        actions.append({'t': t_end, 'do': end, 'op': 'op1'})
    actions.sort(key=lambda a: a['t'])
    plan.update({
        'until': horizon + 60.0,
        'horizon': horizon,
        't_end': t_end if end != 'run' else None,
        'kinds': [{'plural': 'widgets', 'status_subresource': ch.bool(0.3)}],
        'operators': [opspec],
        'objects': objects,
        'actions': actions,
        'tie_random': ch.bool(0.3),
        'net': {'latency_seed': ch.int(0, 1 << 30), 'lat_lo': 0.001, 'lat_hi': ch.choice([0.005, 0.02, 0.1]),
                'watch_lat_lo': 0.001, 'watch_lat_hi': ch.choice([0.005, 0.02]), 'rules': []},
    })
    return plan
