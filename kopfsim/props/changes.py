"""
The change-handling workload family (C02, C03, C04, C05, C11, C14, C16 share it) and the
history analysis that turns a run into per-object processing steps.
"""
from __future__ import annotations

import copy
from typing import Any, Optional

from kopfsim import cluster as cl
from kopfsim import runner
from kopfsim.props import common
from kopfsim.search import Chooser

DISRUPTIVE_TRACE_KINDS = ('op-kill', 'op-stop', 'op-cancel', 'rsp-fail', 'rsp-timeout', 'fault',
                          'watch-eof', 'watch-break')


class Step:
    """One call of process_resource_event for one object by one operator incarnation."""
    __slots__ = ('actor', 'uid', 'etype', 'rv', 't0', 'seq0', 't1', 'seq1', 'how', 'reason', 'initial',
                 'has_old', 'has_diff', 'calls', 'writes', 'consistency_time', 'result')

    def __init__(self) -> None:
        self.reason: Optional[str] = None
        self.initial: Optional[bool] = None
        self.has_old: Optional[bool] = None
        self.has_diff: Optional[bool] = None
        self.calls: list[runner.Call] = []
        self.writes: list[cl.Transition] = []
        self.t1: Optional[float] = None
        self.seq1: Optional[int] = None
        self.how: Optional[str] = None
        self.result: Any = None


def extract_steps(run: runner.Run, plural: str = 'widgets') -> dict[tuple[str, str], list[Step]]:
    """(opid, uid) -> processing steps in order (across incarnations)."""
    steps: dict[tuple[str, str], list[Step]] = {}
    open_steps: dict[tuple[str, str], Step] = {}
    for e in run.sim.trace:
        kind = e[2]
        if kind == 'proc+' and e[4] == plural:
            s = Step()
            s.actor, s.uid, s.etype, s.rv, s.consistency_time = e[3], e[5], e[6], e[7], e[8]
            s.t0, s.seq0 = e[1], e[0]
            open_steps[(e[3], e[5])] = s
            steps.setdefault((common.op_of(e[3]), e[5]), []).append(s)
        elif kind == 'proc-' and e[4] == plural:
            s2 = open_steps.pop((e[3], e[5]), None)
            if s2 is not None:
                s2.t1, s2.seq1, s2.how, s2.result = e[1], e[0], e[6], e[7]
        elif kind == 'cause':
            s3 = open_steps.get((e[3], e[4]))
            if s3 is not None:
                s3.reason, s3.initial, s3.has_old, s3.has_diff = e[5], e[6], e[9], e[10]
    # attach calls and writes by sequence numbers
    for (opid, uid), lst in steps.items():
        calls = [c for c in run.calls if c.op == opid and c.uid == uid and c.hkind in common.CHANGE_KINDS + ('event', 'index')]
        writes = [t for t in run.transitions if t.uid == uid and common.op_of(t.actor) == opid]
        for s in lst:
            hi = s.seq1 if s.seq1 is not None else float('inf')
            s.calls = [c for c in calls if s.seq0 <= c.seq0 <= hi and f'{c.op}#{c.inc}' == s.actor]
            s.writes = [t for t in writes if s.seq0 <= t.seq <= hi and t.actor == s.actor]
    return steps


def fault_between(run: runner.Run, seq_a: int, seq_b: int, min_echo_delay: float = 0.0) -> Optional[str]:
    """Is there a disruptive event (kill/stop/lost response/injected fault) in the trace window?"""
    t_a = t_b = None
    for e in run.sim.trace:
        if e[0] == seq_a:
            t_a = e[1]
        if e[0] == seq_b:
            t_b = e[1]
            break
    if t_a is not None and t_b is not None:
        for e in run.sim.trace:
            # a delayed echo (and everything queued behind it on that connection) in flight
            if e[2] == 'fault-echo' and e[6] <= t_b and e[7] >= t_a and e[7] - e[6] >= min_echo_delay:
                return 'echo-delay'
    for e in run.sim.trace:
        if e[0] < seq_a:
            continue
        if e[0] > seq_b:
            break
        if e[2] in DISRUPTIVE_TRACE_KINDS:
            return str(e[2])
        if e[2] == 'rsp' and isinstance(e[4], int) and e[4] >= 400:
            return f'api-{e[4]}'  # a write of ours was refused or the object is gone
        if e[2] == 'act' and e[3] in ('stall', 'revoke', 'compact', 'close-streams', 'stream-error'):
            return f'act-{e[3]}'
    return None


def final_outcome(call: runner.Call, hspec: dict[str, Any]) -> bool:
    """Does this scripted outcome finish the handler for good (no retries/timeout limits in play)?"""
    if call.outcome in ('ok', 'perm'):
        return True
    if call.outcome == 'exc':
        return hspec.get('opts', {}).get('errors') in ('permanent', 'ignored')
    return False


# --------------------------------------------------------------------------------------
# Workload generation
# --------------------------------------------------------------------------------------
ESSENTIAL_EDITS = ('spec', 'label', 'annotation', 'payload', 'toggle', 'toggle')
NONESSENTIAL_EDITS = ('status', 'foreign-finalizer', 'other-kopf-annotation', 'system-annotation')


def gen_edit(ch: Chooser, name: str, counter: int, kind: str) -> dict[str, Any]:
    if kind == 'spec':
        return {'do': 'patch', 'name': name, 'patch': {'spec': {'a': 100 + counter}}, 'essential': True}
    if kind == 'toggle':
        # values repeat, so an edit can revert an earlier one (also mid-cycle)
        return {'do': 'patch', 'name': name, 'patch': {'spec': {'t': ch.choice([None, 1])}}, 'essential': True}
    if kind == 'label':
        return {'do': 'patch', 'name': name, 'patch': {'metadata': {'labels': {'tier': f't{counter}'}}}, 'essential': True}
    if kind == 'annotation':
        return {'do': 'patch', 'name': name, 'patch': {'metadata': {'annotations': {'note': f'n{counter}'}}}, 'essential': True}
    if kind == 'payload':
        return {'do': 'patch', 'name': name, 'patch': {'extra': {'k': counter, 'ü': None}}, 'essential': True}
    if kind == 'status':
        return {'do': 'patch', 'name': name, 'patch': {'status': {'observed': counter}}, 'sub': 'status?',
                'actor': 'controller', 'essential': False}
    if kind == 'foreign-finalizer':
        if ch.bool():
            return {'do': 'edit', 'edit': 'add-finalizer', 'name': name, 'value': f'other.example.com/f{counter % 2}',
                    'pos': ch.choice([0, None]), 'actor': 'controller', 'essential': False}
        return {'do': 'edit', 'edit': 'remove-finalizer', 'name': name, 'value': f'other.example.com/f{counter % 2}',
                'actor': 'controller', 'essential': False}
    if kind == 'other-kopf-annotation':
        return {'do': 'patch', 'name': name, 'actor': 'controller', 'essential': False,
                'patch': {'metadata': {'annotations': {'else.example.com/kopf-managed': 'yes',
                                                       'else.example.com/some-handler': f'{{"retries":{counter}}}'}}}}
    if kind == 'system-annotation':
        return {'do': 'patch', 'name': name, 'actor': 'kubectl', 'essential': False,
                'patch': {'metadata': {'annotations': {common.LAST_APPLIED: f'{{"v":{counter}}}'}}}}
    raise ValueError(kind)


def fix_sub(action: dict[str, Any], status_subresource: bool) -> dict[str, Any]:
    if action.get('sub') == 'status?':
        action = dict(action)
        if status_subresource:
            action['sub'] = 'status'
        else:
            del action['sub']
    return action


def gen_handlers(ch: Chooser, *, causes: tuple[str, ...] = ('create', 'update', 'delete', 'resume'),
                 max_per_cause: int = 3, subs: bool = False, limits: bool = False,
                 errors_modes: bool = True, max_failures: int = 3, optional_delete: bool = True,
                 allow_perm: bool = True) -> list[dict[str, Any]]:
    handlers: list[dict[str, Any]] = []
    for cause in causes:
        lo = 0 if cause in ('resume', 'delete') else 1
        for i in range(ch.int(lo, max_per_cause)):
            hid = f'{cause[0]}{i + 1}'
            opts: dict[str, Any] = {}
            if errors_modes and ch.bool(0.3):
                opts['errors'] = ch.choice(['temporary', 'permanent', 'ignored'])
            if ch.bool(0.5):
                opts['backoff'] = ch.choice([0.1, 0.5, 1.0, 2.0])
            if limits:
                if ch.bool(0.5):
                    opts['retries'] = ch.int(1, 4)
                if ch.bool(0.4):
                    opts['timeout'] = ch.choice([0.5, 2.0, 5.0, 10.0])
            if cause == 'delete' and optional_delete and ch.bool(0.3):
                opts['optional'] = True
            if cause == 'resume' and ch.bool(0.3):
                opts['deleted'] = True
            h: dict[str, Any] = {'id': hid, 'kind': cause, 'opts': opts,
                                 'script': common.gen_script(ch, max_failures=max_failures, allow_perm=allow_perm)}
            if subs and cause in ('create', 'update', 'resume') and ch.bool(0.35):
                h['subs'] = [{'id': f's{k + 1}', 'script': common.gen_script(ch, max_failures=2, allow_perm=allow_perm)}
                             for k in range(ch.int(1, 2))]
                h['script'] = [{'do': 'ok', 'dur': ch.choice([0.0, 0.1])}]
                if allow_perm and ch.bool(0.25):
                    # the parent gives up for good on a later attempt, while its children are still retrying
                    h['script'] = [{'do': 'ok', 'dur': 0.0}] * ch.int(1, 2) + [{'do': 'perm', 'dur': 0.0}]
            handlers.append(h)
    return handlers


def gen_change_plan(ch: Chooser, *, faults: bool, restarts: bool, deletes: bool = True,
                    subs: bool = False, limits: bool = False, causes: tuple[str, ...] = ('create', 'update', 'delete', 'resume'),
                    nonessential: bool = True, storage: bool = True, lifecycles: bool = True,
                    max_objects: int = 3, edits: tuple[int, int] = (2, 10), late_start: bool = True,
                    errors_modes: bool = True, max_failures: int = 3, allow_perm: bool = True,
                    horizon: Optional[float] = None, name_reuse: bool = False,
                    api_faults: bool = True, sync_share: Optional[float] = None) -> dict[str, Any]:
    settings = common.base_settings(ch)
    status_sub = ch.bool(0.4)
    st = common.gen_storage(ch) if storage else None
    if st:
        settings['storage'] = st
    lifecycle = ch.choice([None, None, 'asap', 'one_by_one', 'all_at_once', 'shuffled', 'randomized']) if lifecycles else None
    handlers = gen_handlers(ch, causes=causes, subs=subs, limits=limits, errors_modes=errors_modes,
                            max_failures=max_failures, allow_perm=allow_perm)
    horizon = horizon if horizon is not None else ch.choice([15.0, 30.0, 60.0])
    nobj = ch.int(1, max_objects)
    names = [f'w{i}' for i in range(nobj)]
    objects = []
    actions: list[dict[str, Any]] = []
    t_start = ch.choice([0.0, 0.0, 2.0]) if late_start else 0.0
    actions.append({'t': t_start, 'do': 'start', 'op': 'op1'})
    for name in names:
        body = common.widget_body(name, ch)
        if ch.bool(0.6):
            objects.append({'kind': 'widgets', 'body': body})
        else:
            actions.append({'t': ch.float(0.0, horizon * 0.5), 'do': 'create', 'body': body})
    counter = 0
    kinds = list(ESSENTIAL_EDITS) + (list(NONESSENTIAL_EDITS) if nonessential else [])
    for _ in range(ch.int(*edits)):
        counter += 1
        a = gen_edit(ch, ch.choice(names), counter, ch.choice(kinds))
        a = fix_sub(a, status_sub)
        a['t'] = ch.float(0.1, horizon)
        actions.append(a)
    if deletes:
        for name in names:
            if ch.bool(0.35):
                t = ch.float(horizon * 0.3, horizon)
                actions.append({'t': t, 'do': 'delete', 'name': name})
                if ch.bool(0.4):
                    # A later object under the same name is C08's subject; elsewhere names are fresh.
                    actions.append({'t': round(t + ch.choice([0.5, 3.0, 8.0]), 6), 'do': 'create',
                                    'body': common.widget_body(name if name_reuse else name + 'b', ch)})
    rules: list[dict[str, Any]] = []
    if restarts:
        t = t_start
        for _ in range(ch.int(1, 3)):
            t = ch.float(t + 0.5, horizon)
            how = ch.choice(['kill', 'kill', 'stop', 'cancel'])
            a2: dict[str, Any] = {'t': t, 'do': how, 'op': 'op1'}
            if how == 'kill':
                a2['inflight_lands'] = ch.bool()
            actions.append(a2)
            t = round(t + ch.choice([0.1, 2.0, 10.0]), 6)
            actions.append({'t': t, 'do': 'start', 'op': 'op1'})
            if t > horizon:
                break
    if faults:
        for _ in range(ch.int(1, 4)):
            kind = ch.choice(['status', 'status', 'drop-response', 'drop-request', 'event-delay']) if api_faults else 'event-delay'
            match: dict[str, Any] = {'kind': 'widgets', 'name': ch.choice(names)}
            if kind == 'event-delay':
                rules.append({'phase': 'event', 'match': dict(match, own_echo=True), 'nth': ch.int(1, 5),
                              'action': {'kind': 'event-delay',
                                         'delay': ch.choice([0.3, settings['consistency_timeout'] * 1.5,
                                                             settings['consistency_timeout'] + 2.0])}})
                continue
            match['method'] = 'PATCH'
            action: dict[str, Any] = {'kind': kind}
            if kind == 'status':
                action['status'] = ch.choice([500, 503, 429, 403, 409, 404, 422])
                if action['status'] == 429 and ch.bool():
                    action['headers'] = {'Retry-After': '1'}
                action['apply'] = ch.bool(0.2) if action['status'] >= 500 else False
            else:
                action['exc'] = ch.choice(['ClientConnectionError', 'ServerDisconnectedError', 'TimeoutError'])
            rules.append({'match': match, 'nth': ch.int(1, 6), 'action': action})
        if ch.bool(0.4):
            actions.append({'t': ch.float(1.0, horizon), 'do': 'stall', 'op': 'op1', 'dur': ch.choice([0.5, 3.0, 8.0])})
        if ch.bool(0.4):
            actions.append({'t': ch.float(1.0, horizon), 'do': 'close-streams', 'kind': 'widgets',
                            'how': ch.choice(['eof', 'reset'])})
    actions.sort(key=lambda a: a['t'])
    # the operator must be up at the end
    last_start = max((a['t'] for a in actions if a['do'] == 'start'), default=0.0)
    faults_stop = max([a['t'] for a in actions] + [horizon, last_start])
    settle = 120.0
    plan: dict[str, Any] = {
        'until': faults_stop + settle,
        'faults_stop': faults_stop,
        'kinds': [{'plural': 'widgets', 'status_subresource': status_sub}],
        'operators': [{'id': 'op1', 'standalone': True, 'settings': settings, 'handlers': handlers,
                       'lifecycle': lifecycle}],
        'objects': objects,
        'actions': actions,
        'tie_random': ch.bool(0.3),
        'net': {'latency_seed': ch.int(0, 1 << 30), 'lat_lo': 0.001, 'lat_hi': ch.choice([0.005, 0.02, 0.1]),
                'watch_lat_lo': 0.001, 'watch_lat_hi': ch.choice([0.005, 0.02, 0.1]), 'rules': rules},
    }
    # synchronous handlers (run in simulated threads): none in most plans, some or most in the others
    share = sync_share if sync_share is not None else ch.choice([0.0, 0.0, 0.0, 0.3, 0.7])
    if share:
        # (the executor may be busy: a submitted function starts some time later)
        plan['operators'][0]['thread_start_latency'] = ch.choice([0.0, 0.0, 0.001, 0.05])
        for h in handlers:
            if ch.bool(share):
                h['sync'] = True
            for sub in h.get('subs', []):
                if ch.bool(share):
                    sub['sync'] = True
    return plan


def segment_cycles(st: common.StorageRef, lst: list[Step], snaps: dict[tuple[Any, Any], dict[str, Any]],
                   uid: str, delete_closes_on_release: bool = False) -> list[list[Step]]:
    """
    Handling cycles of one object: delimited by a change of the detected cause, by a new process for
    resuming, or by a step after which nothing of the operator is pending on the object any more.
    """
    cycles: list[list[Step]] = []
    cur: list[Step] = []
    cur_reason: Optional[str] = None
    cur_actor: Optional[str] = None
    for s in lst:
        if s.reason in ('create', 'update', 'delete', 'resume'):
            if cur and (s.reason != cur_reason or (s.reason == 'resume' and s.actor != cur_actor)):
                cycles.append(cur)
                cur = []
            cur_reason, cur_actor = s.reason, s.actor
            cur.append(s)
            view = snaps.get((uid, s.rv))
            state_after = s.writes[-1].after if s.writes else view
            released = (not delete_closes_on_release or s.reason != 'delete' or state_after is None
                        or not st.has_finalizer(state_after))
            if ((s.how == 'returned' and (s.calls or s.writes)) or s.writes) and not st.records(state_after) and released:
                cycles.append(cur)
                cur = []
        elif s.reason == 'gone':
            if cur:
                cycles.append(cur)
                cur = []
            cur_reason = None
        elif s.reason in ('noop', 'free') and s.writes and not st.records(s.writes[-1].after):
            if cur:
                cycles.append(cur)
                cur = []
            cur_reason = None
    if cur:
        cycles.append(cur)
    return cycles
