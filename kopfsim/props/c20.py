"""
C20 -- Operator lifecycle: startup first, fail-fast, cleanup last, bounded exit.
"""
from __future__ import annotations

from typing import Any, Optional

from kopfsim import runner
from kopfsim.props import common, spawning
from kopfsim.search import Chooser, Outcome

ID = 'C20'
TITLE = 'Operator lifecycle: startup first, fail-fast, cleanup last, bounded exit'
LEVEL = 'exploration'
RULE = ('one operator with 0-2 startup and 0-2 cleanup handlers (scripts: ok after a duration / temporary errors then ok / '
        'permanent error / arbitrary error), 0-2 daemons of all reaction kinds, a slow create handler and a raw-event '
        'handler on 1-2 objects, optional peering; one trigger per run at a drawn moment (also inside the startup): stop '
        'flag, task cancellation, permanent startup failure, failing login handler, an essential root task failing (the '
        'CRD/namespace observer meets persistent 5xx on reconnect), a resource watcher failing (unknown ERROR event), or '
        'none. Oracle on the global order of: startup/cleanup calls, ready flag, logins, every API request, handler and '
        'daemon calls, the peering record, and the return of kopf.operator(). Distinct = abstract trace signature; '
        'non-trivial = the trigger fired while the operator had work in flight or daemons running, or during startup.')
COMPONENTS = common.COMPONENTS
ASSUMPTIONS = common.BASE_ASSUMPTIONS + [
    'the exit bound is computed from the plan: hung-task grace (5 s) + queue exit timeouts + the cancellation backoffs and '
    'timeouts of the daemons + the scripted durations, delays and backoffs of the cleanup handlers + API latencies + 10 s',
    'task cancellation is exempt from the graceful clauses (kopf documents that cancellation has no graceful period)',
]
REDUCIBLE = ['objects', 'net.rules']
EPS = 1e-6


def _gen_activity(ch: Chooser, hid: str, kind: str, allow_perm: bool) -> dict[str, Any]:
    script: list[dict[str, Any]] = []
    shape = ch.weighted([('ok', 5), ('temp-ok', 2), ('exc-ok', 1.5), ('perm', 1.0 if allow_perm else 0.0)])
    if shape == 'temp-ok':
        for _ in range(ch.int(1, 2)):
            script.append({'do': 'temp', 'dur': ch.choice([0.0, 0.3]), 'delay': ch.choice([0.2, 1.0])})
    if shape == 'exc-ok':
        script.append({'do': 'exc', 'dur': ch.choice([0.0, 0.3])})
    script.append({'do': 'perm' if shape == 'perm' else 'ok', 'dur': ch.choice([0.0, 0.2, 1.0, 3.0])})
    opts: dict[str, Any] = {'backoff': ch.choice([0.3, 1.0])}
    return {'id': hid, 'kind': kind, 'opts': opts, 'script': script}


def gen_plan(ch: Chooser, tier: str) -> dict[str, Any]:
    settings = common.base_settings(ch)
    trigger = ch.weighted([('stop', 4), ('cancel', 1.5), ('startup-perm', 1.5), ('login-fails', 1), ('observer-fails', 2),
                           ('watcher-fails', 1), ('none', 0.7)])
    handlers: list[dict[str, Any]] = []
    n_start = ch.int(0, 2) if trigger != 'startup-perm' else ch.int(1, 2)
    for i in range(n_start):
        handlers.append(_gen_activity(ch, f's{i + 1}', 'startup', allow_perm=False))
    if trigger == 'startup-perm':
        victim = ch.choice([h for h in handlers if h['kind'] == 'startup'])
        victim['script'][-1]['do'] = 'perm'
    for i in range(ch.int(0, 2)):
        handlers.append(_gen_activity(ch, f'z{i + 1}', 'cleanup', allow_perm=True))
    handlers.append({'id': 'ev', 'kind': 'event'})
    if ch.bool(0.6):
        handlers.append({'id': 'c1', 'kind': 'create', 'opts': {},
                         'script': [{'do': 'ok', 'dur': ch.choice([0.1, 2.0, 6.0])}]})
    sync_share = ch.choice([0.0, 0.0, 0.5])
    for i in range(ch.int(0, 2)):
        handlers.append(spawning.gen_daemon(ch, f'dm{i + 1}', sync_share=sync_share))
    for h in handlers:
        if h['kind'] == 'daemon':
            h['opts'].pop('labels', None)
            h['opts'].pop('initial_delay', None)
    objects = [{'kind': 'widgets', 'body': {'metadata': {'name': f'w{i}'}, 'spec': {'a': i}}}
               for i in range(ch.int(1, 2))]
    startup_span = sum(sum(s.get('dur', 0.0) + s.get('delay', 0.0) + 1.0 for s in h['script'])
                       for h in handlers if h['kind'] == 'startup')
    during_startup = ch.bool(0.3) and startup_span > 0.5
    t_trig = ch.float(0.05, max(0.1, startup_span)) if during_startup else ch.float(startup_span + 0.5, startup_span + 9.0)
    t_trig = round(t_trig, 6)
    actions: list[dict[str, Any]] = [{'t': 0.0, 'do': 'start', 'op': 'op1'}]
    rules: list[dict[str, Any]] = []
    opspec: dict[str, Any] = {'id': 'op1', 'settings': settings, 'handlers': handlers}
    plan: dict[str, Any] = {}
    clusterwide = ch.bool(0.6)
    if not clusterwide:
        opspec['namespaces'] = ['default']
    if ch.bool(0.35):
        opspec.update(standalone=False, peering_name='default', priority=10)
        settings['peering_lifetime'] = 20
        kind = 'clusterkopfpeerings' if clusterwide else 'kopfpeerings'
        plan['peering'] = {'objects': [dict({'kind': kind, 'name': 'default'}, **({} if clusterwide else {'ns': 'default'}))]}
    else:
        opspec['standalone'] = True
    if trigger == 'stop':
        actions.append({'t': t_trig, 'do': 'stop', 'op': 'op1'})
    elif trigger == 'cancel':
        actions.append({'t': t_trig, 'do': 'cancel', 'op': 'op1'})
    elif trigger == 'login-fails':
        opspec['login_fails_from'] = ch.choice([0, 0, 1])
        if opspec['login_fails_from'] == 1:
            actions.append({'t': t_trig, 'do': 'revoke', 'op': 'op1'})
            actions.append({'t': round(t_trig + 0.5, 6), 'do': 'patch', 'name': 'w0', 'patch': {'spec': {'b': 1}}})
    elif trigger == 'observer-fails':
        victim_kind = 'customresourcedefinitions' if clusterwide or ch.bool(0.5) else 'namespaces'
        rules.append({'phase': 'request', 'match': {'kind': victim_kind, 'from_t': t_trig},
                      'action': {'kind': 'status', 'status': ch.choice([500, 503])}})
        actions.append({'t': round(t_trig + 0.01, 6), 'do': 'close-streams', 'kind': victim_kind,
                        'how': ch.choice(['eof', 'reset'])})
    elif trigger == 'watcher-fails':
        actions.append({'t': t_trig, 'do': 'stream-error', 'kind': 'widgets', 'code': 500})
    # a little traffic, so that something is in flight
    for k in range(ch.int(0, 3)):
        actions.append({'t': round(ch.float(0.2, t_trig + 2.0), 6), 'do': 'patch', 'name': ch.choice(['w0', 'w1']),
                        'patch': {'spec': {'n': k}}})
    if ch.bool(0.3):
        actions.append({'t': round(ch.float(0.2, t_trig + 1.0), 6), 'do': 'create', 'kind': 'widgets',
                        'body': {'metadata': {'name': 'late'}, 'spec': {'a': 9}}})
    if trigger in ('stop', 'cancel') and not during_startup and any(h['kind'] == 'daemon' for h in handlers) and ch.bool(0.35):
        # targeted timing: the stop comes while the daemons of an object are in the middle of being stopped for another
        # reason (the object has just been marked for deletion) -- their stages must not be cut short by the exit
        actions.append({'t': round(max(0.1, t_trig - ch.choice([0.01, 0.1, 0.3, 0.8])), 6), 'do': 'delete', 'name': 'w0'})
    actions.sort(key=lambda a: a['t'])
    plan.update({
        'trigger': trigger, 't_trigger': t_trig, 'clusterwide': clusterwide,
        'kinds': [{'plural': 'widgets'}], 'operators': [opspec], 'objects': objects, 'actions': actions,
        'tie_random': ch.bool(0.3),
        'net': {'latency_seed': ch.int(0, 1 << 30), 'lat_lo': 0.001, 'lat_hi': ch.choice([0.005, 0.05, 0.3]),
                'watch_lat_lo': 0.001, 'watch_lat_hi': ch.choice([0.005, 0.05]), 'rules': rules},
    })
    plan['until'] = round(t_trig + startup_span + exit_bound(plan) + 30.0, 3)
    return plan


def exit_bound(plan: dict[str, Any]) -> float:
    spec = plan['operators'][0]
    b = 5.0 + 2.0 + 10.0   # hung-task grace + queue exit timeout + slack
    for h in spec['handlers']:
        o = h.get('opts', {})
        if h['kind'] == 'daemon':
            b += float(o.get('cancellation_backoff') or 0.0) + float(o.get('cancellation_timeout') or 0.0) + 1.0
            b += float((h.get('daemon') or {}).get('hold', 0.0)) + float((h.get('daemon') or {}).get('exit_delay', 0.0))
        elif h['kind'] == 'cleanup':
            b += sum(float(s.get('dur', 0.0)) + float(s.get('delay', 0.0)) + float(o.get('backoff', 1.0))
                     for s in h.get('script', []))
        elif h['kind'] in ('create',):
            b += max(float(s.get('dur', 0.0)) for s in h.get('script', [{}]))
    b += 20 * float(plan['net'].get('lat_hi', 0.01))
    return b


def oracle(run: runner.Run, oc: Outcome) -> None:
    opid = 'op1'
    op = run.op(opid)
    if op is None:
        return
    plan = run.plan
    spec = common.spec_of(run, opid)
    hspecs = common.handler_specs(run, opid)
    actor = op.actor
    trace = run.sim.trace
    trigger = plan.get('trigger')
    t_end = run.sim.now
    calls = [c for c in run.calls if c.op == opid and c.inc == op.incarnation]
    startups = [c for c in calls if c.hkind == 'startup']
    cleanups = [c for c in calls if c.hkind == 'cleanup']
    startup_ids = [hid for hid, h in hspecs.items() if h['kind'] == 'startup']
    cleanup_ids = [hid for hid, h in hspecs.items() if h['kind'] == 'cleanup']
    requests = [r for r in run.net.requests if r.session.actor == actor]
    by_rid = {r.rid: r for r in run.net.requests}
    logins = [e for e in trace if e[2] in ('login', 'login-failed') and e[3] == actor]
    ready = [e[1] for e in trace if e[2] == 'op-ready' and e[3] == actor]
    t_exit = op.exit[0] if op.exit is not None else None
    how_exit = op.exit[1] if op.exit is not None else None
    t_stop = op.t_stop_requested
    cancelled = any(e[2] == 'op-cancel' and e[3] == actor for e in trace)

    # ---------------- A. startup first ----------------
    ok_end: dict[str, float] = {}
    for c in startups:
        if c.outcome == 'ok' and c.t1 is not None:
            ok_end[c.hid] = c.t1
    started_ok = all(h in ok_end for h in startup_ids)
    t_started: Optional[float] = max(ok_end.values(), default=0.0) if started_ok else None
    perm_failed = [c for c in startups if c.outcome == 'perm']

    def _before_startup(t: float) -> bool:
        return t_started is None or t < t_started - EPS

    early_req = [r for r in requests if _before_startup(r.t_sent)]
    if startup_ids and early_req:
        oc.add('C20/api-before-startup', 'request',
               f"{len(early_req)} API request(s) were made before all startup handlers had succeeded "
               f"(startup {'done at t=%.4f' % t_started if t_started is not None else 'never succeeded'}); first: "
               f"{early_req[0].method} {early_req[0].path} at t={early_req[0].t_sent:.4f}")
    early_login = [e for e in logins if _before_startup(e[1])]
    if startup_ids and early_login:
        oc.add('C20/api-before-startup', 'login',
               f"the login handler was called at t={early_login[0][1]:.4f}, before all startup handlers had succeeded")
    early_calls = [c for c in calls if c.hkind not in ('startup', 'cleanup') and _before_startup(c.t0)]
    if startup_ids and early_calls:
        oc.add('C20/api-before-startup', 'handler',
               f"handler {early_calls[0].hid} ran at t={early_calls[0].t0:.4f}, before all startup handlers had succeeded")
    if startup_ids and ready and _before_startup(ready[0]):
        oc.add('C20/ready-before-startup', 'ready-flag',
               f"the ready flag was raised at t={ready[0]:.4f} but the startup handlers "
               f"{'finished at t=%.4f' % t_started if t_started is not None else 'never succeeded'}")
    if started_ok and not ready and (t_stop is None or t_stop > (t_started or 0.0) + 0.5) and \
            (t_exit is None or t_exit > (t_started or 0.0) + 0.5):
        oc.add('C20/ready-before-startup', 'never-ready',
               f"startup finished at t={t_started} but the ready flag was never raised")
    if perm_failed and not cancelled and (t_stop is None or t_stop > perm_failed[0].t1):  # type: ignore[operator]
        t_f = perm_failed[0].t1 or 0.0
        if how_exit != 'raised' or t_exit is None:
            oc.add('C20/startup-failure-not-fatal', str(how_exit),
                   f"startup handler {perm_failed[0].hid} failed permanently at t={t_f:.3f} but kopf.operator() "
                   f"{'is still running at t=%.1f' % t_end if t_exit is None else 'ended as ' + str(op.exit)}")
        elif t_exit - t_f > exit_bound(plan):
            oc.add('C20/exit-unbounded', 'after-startup-failure',
                   f"startup failed at t={t_f:.3f}; kopf.operator() returned only at t={t_exit:.3f}")

    # ---------------- B. fail-fast on essential failures ----------------
    bound = exit_bound(plan)
    t_fail: Optional[float] = None
    fail_kind: Optional[str] = None
    if trigger == 'observer-fails':
        # (the injected answers to the observer's requests only: a 422 to one of the operator's own JSON-patches is an
        # ordinary lost race, not a failure of an essential task)
        by_rid_ = {r.rid: r for r in run.net.requests}
        failing = [e for e in trace if e[2] == 'rsp' and isinstance(e[4], int) and e[4] >= 500
                   and e[1] >= plan['t_trigger'] and (rq_ := by_rid_.get(e[3])) is not None
                   and rq_.attrs.get('kind') in ('customresourcedefinitions', 'namespaces')]
        if failing:
            # the API layer retries with its backoffs; the task fails after the last of them
            n_retries = len(spec['settings'].get('error_backoffs', [0.1, 0.2])) + 1
            if len(failing) >= n_retries:
                t_fail, fail_kind = failing[n_retries - 1][1], 'observer'
    elif trigger == 'watcher-fails':
        exits = [e for e in trace if e[2] == 'watch-exit' and e[3] == actor and str(e[6]).startswith('error:')]
        if exits:
            t_fail, fail_kind = exits[0][1], 'watcher'
    elif trigger == 'login-fails':
        failed = [e for e in trace if e[2] == 'login-failed' and e[3] == actor]
        if failed:
            t_fail, fail_kind = failed[0][1], 'login'
    t_close = min([e[1] for e in trace if e[2] == 'session-close' and e[3] == actor], default=None)
    outlived = [c for c in calls if c.hkind in ('daemon', 'timer') and t_close is not None
                and c.t1 is not None and c.t1 > t_close]
    if t_fail is not None and not cancelled and (t_stop is None or t_stop > t_fail):
        if t_exit is None:
            if t_end - t_fail > bound:
                # a failed login met only by the resource watchers (the root tasks sit on streams opened before and
                # ask for nothing): it is the watchers that fail, and a failed watcher is not escalated (known)
                only_watchers = fail_kind == 'login' and any(
                    e[2] == 'watch-exit' and e[3] == actor and str(e[6]) == 'error:LoginError' for e in trace) and not any(
                    e[2] == 'req' and e[4] == actor and e[1] > t_fail for e in trace)
                # told apart: a synchronous daemon spawned by an event processed while the workers drained (nobody stops it,
                # see the cleanup clause) sits in its thread for good -- threads cannot be cancelled, the exit waits for it
                late_sync = [c for c in calls if c.hkind == 'daemon' and (c.extra or {}).get('sync') and c.t1 is None
                             and c.t0 > t_fail + EPS]
                oc.add('C20/lingering', 'sync-daemon-spawned-after-stop-requested' if late_sync else
                       'daemon-outlived-session' if outlived else
                       'after-watcher-failed' if only_watchers else f'after-{fail_kind}-failed',
                       f"an essential task failed at t={t_fail:.3f} ({fail_kind}) but kopf.operator() is still running "
                       f"at t={t_end:.1f} (bound {bound:.1f}s): half-alive")
        else:
            if how_exit != 'raised':
                oc.add('C20/failure-not-reraised', f'after-{fail_kind}-failed',
                       f"an essential task failed at t={t_fail:.3f} ({fail_kind}) and kopf.operator() ended as {op.exit} "
                       f"instead of re-raising the failure")
            if t_exit - t_fail > bound:
                oc.add('C20/exit-unbounded', f'after-{fail_kind}-failed',
                       f"an essential task failed at t={t_fail:.3f}; kopf.operator() returned only at t={t_exit:.3f} "
                       f"(bound {bound:.1f}s)")

    # ---------------- C. graceful stop: bounded, clean ----------------
    graceful_from: Optional[float] = None
    if t_stop is not None and not cancelled:
        graceful_from = t_stop
    elif t_fail is not None and t_exit is not None and not cancelled:
        graceful_from = t_fail
    if t_stop is not None and not cancelled:
        if t_exit is None:
            if t_end - t_stop > bound:
                late_sync = [c for c in calls if c.hkind == 'daemon' and (c.extra or {}).get('sync') and c.t1 is None
                             and c.t0 > t_stop + EPS]
                oc.add('C20/exit-unbounded', 'sync-daemon-spawned-after-stop-requested' if late_sync else
                       'daemon-outlived-session' if outlived else 'after-stop-flag',
                       f"the stop flag was set at t={t_stop:.3f} but kopf.operator() has not returned by t={t_end:.1f} "
                       f"(bound {bound:.1f}s)")
        else:
            if t_exit - t_stop > bound:
                oc.add('C20/exit-unbounded', 'after-stop-flag',
                       f"the stop flag was set at t={t_stop:.3f}; kopf.operator() returned only at t={t_exit:.3f} "
                       f"(bound {bound:.1f}s)")
            cleanup_failed = any(c.outcome == 'perm' for c in cleanups)
            if how_exit != 'returned' and not perm_failed and t_fail is None and not cleanup_failed:
                oc.add('C20/stop-not-clean', str(how_exit),
                       f"a plain stop request at t={t_stop:.3f} made kopf.operator() end as {op.exit}")
    if graceful_from is not None and t_exit is not None:
        # daemons were asked to stop and have ended
        for c in calls:
            if c.hkind != 'daemon':
                continue
            mode = hspecs[c.hid]['daemon']['mode']
            if c.t1 is None or c.t1 > t_exit + EPS:
                abandoned = mode == 'ignore'
                if not abandoned:
                    oc.add('C20/daemon-outlived-operator', mode,
                           f"daemon {c.hid} of {c.uid} (since t={c.t0:.2f}) was still running when kopf.operator() "
                           f"returned at t={t_exit:.3f} (ended: {c.t1})", hid=c.hid)
        # cleanup last
        if started_ok:
            missing = [h for h in cleanup_ids if not any(c.hid == h for c in cleanups)]
            if missing and how_exit in ('returned', 'raised'):
                oc.add('C20/cleanup-not-run', 'missing',
                       f"kopf.operator() ended ({how_exit}) at t={t_exit:.3f} without having called the cleanup "
                       f"handler(s) {missing}")
        if cleanups:
            t_c = min(c.t0 for c in cleanups)
            seq_c = min(c.seq0 for c in cleanups)
            late_calls = [c for c in calls if c.hkind not in ('cleanup',) and (c.t1 is None or c.t1 > t_c + EPS)]
            late_daemon_uids = set()
            for c in late_calls:
                sig = f'{c.hkind}-still-running'
                if c.hkind == 'daemon':
                    # kopf gives every daemon its configured grace (cancellation_backoff + cancellation_timeout, both
                    # optional) and then abandons it to the cancellation of "hung" tasks; the cleanup does not wait.
                    o = hspecs[c.hid].get('opts', {})
                    grace = float(o.get('cancellation_backoff') or 0.0) + float(o.get('cancellation_timeout') or 0.0)
                    flag_at = (c.extra or {}).get('flag_at')
                    late_daemon_uids.add(c.uid)
                    if c.t0 > graceful_from + EPS:
                        # an event still queued when the stop was requested is processed while the workers are
                        # drained, and spawns the daemon anew -- after the daemon killer has done its round
                        sig = 'daemon-spawned-after-stop-requested'
                    elif flag_at is None or flag_at > t_c:
                        sig = 'daemon-not-asked-to-stop'
                    elif t_c < flag_at + grace - 1e-3:
                        sig = 'daemon-within-its-grace'
                    else:
                        sig = 'daemon-abandoned-still-running'
                oc.add('C20/cleanup-not-last', sig,
                       f"the cleanup started at t={t_c:.4f} while {c.hkind} handler {c.hid} (since t={c.t0:.3f}) "
                       f"had not ended ({c.t1}); flag at {(c.extra or {}).get('flag_at')}", hid=c.hid)
            late_req = [r for r in requests if r.t_sent > t_c + EPS]
            if late_req:
                by_daemon = all(r.attrs.get('intended_uid') in late_daemon_uids for r in late_req)
                by_scan = all(r.method == 'GET' and r.attrs.get('kind') is None for r in late_req)
                oc.add('C20/cleanup-not-last',
                       'api-request-of-abandoned-daemon' if by_daemon and late_daemon_uids
                       else 'api-request-of-orphaned-api-scan' if by_scan
                       else 'api-request-after-cleanup-started',
                       f"{len(late_req)} API request(s) were made after the cleanup had started at t={t_c:.4f}; first: "
                       f"{late_req[0].method} {late_req[0].path} at t={late_req[0].t_sent:.4f}")
        # the peering record is withdrawn
        # (it cannot be when the credentials are gone)
        if plan.get('peering') and started_ok and fail_kind != 'login':
            for pobj in plan['peering']['objects']:
                rd = run.rdef(pobj['kind'])
                cur = run.cluster.get(rd, pobj.get('ns'), pobj['name'])
                ident = spec.get('identity', actor)
                rec = ((cur or {}).get('status') or {}).get(ident)
                mine = [t for t in run.transitions if t.actor == actor and t.rkey == rd.key]
                wrote = bool(mine)
                # The network may apply a request that the client has given up on after a later one: the last
                # "I am alive" (cancelled in flight) can land after the withdrawal. Not kopf's doing.
                reordered = False
                if len(mine) >= 2:
                    rq_last = by_rid.get((mine[-1].ctx or {}).get('rid'))
                    rq_prev = by_rid.get((mine[-2].ctx or {}).get('rid'))
                    reordered = rq_last is not None and rq_prev is not None and rq_last.t_sent < rq_prev.t_sent
                if rec is not None and reordered:
                    oc.probes['probe.withdrawal-overtaken-in-the-network'] = 1
                elif rec is not None and wrote:
                    oc.add('C20/peering-not-withdrawn', 'record-remains',
                           f"kopf.operator() ended ({how_exit}) at t={t_exit:.3f} but its record is still in "
                           f"{pobj['kind']}/{pobj['name']}: {rec}")
    # the process does not hang after the operator function returned
    if t_exit is not None and op.t_process_gone is None and t_end - t_exit > 10.0:
        oc.add('C20/process-hangs', 'leftover-tasks',
               f"kopf.operator() ended at t={t_exit:.3f} but tasks were still alive at t={t_end:.1f}")

    busy = any(c.t0 <= plan['t_trigger'] and (c.t1 is None or c.t1 >= plan['t_trigger']) for c in calls)
    oc.probes['probe.trigger-hit-busy-operator'] = int(busy)
    oc.probes[f'probe.trigger.{trigger}'] = 1
    if t_fail is not None:
        oc.probes[f'probe.essential-failure.{fail_kind}'] = 1
    if busy or (t_started is None and startup_ids) or t_fail is not None:
        oc.nontrivial = True


def evaluate(plan: dict[str, Any]) -> Outcome:
    return common.evaluate_closed_loop(plan, oracle, stall_is_violation='C20/stall')
