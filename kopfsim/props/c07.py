"""
C07 -- Change handlers never run on a view older than the operator's own last write.
"""
from __future__ import annotations

from typing import Any

from kopfsim import runner
from kopfsim.props import changes, common
from kopfsim.search import Chooser, Outcome

ID = 'C07'
TITLE = "Change handlers never run on a view older than the operator's own last write"
LEVEL = 'exploration'
RULE = ('one operator, multi-step handler cycles (every step PATCHes progress); the echo of each own PATCH is '
        'delayed by a drawn amount below, at and above consistency_timeout (0.5-5 s); 0-5 foreign modifications '
        'are triggered while a handler runs, so that they queue up before the echo; API latencies drawn. For every '
        'change-handler call on view version v: every own PATCH acknowledged before it with version r satisfies '
        'v >= r or (now - ack) >= consistency_timeout. Raw-event handlers must start at the beginning of their '
        'processing step even while a barrier is pending. Distinct = abstract trace signature; non-trivial = '
        'an echo delay actually fired or a foreign event was processed while an own write was unconfirmed.')
COMPONENTS = common.COMPONENTS
ASSUMPTIONS = common.BASE_ASSUMPTIONS + [
    'resourceVersions of the fake API are integers, so the oracle (not kopf) may order them',
    'no daemons/timers here (their patches are not issued by the per-object worker)',
]
EPS = 0.01


def gen_plan(ch: Chooser, tier: str) -> dict[str, Any]:
    plan = changes.gen_change_plan(ch, faults=False, restarts=False, subs=ch.bool(0.2), deletes=ch.bool(0.3),
                                   max_failures=2, edits=(1, 6), max_objects=2, lifecycles=True,
                                   late_start=False, horizon=ch.choice([10.0, 20.0]))
    op = plan['operators'][0]
    ct = ch.choice([0.5, 1.0, 2.0, 5.0])
    op['settings']['consistency_timeout'] = ct
    op['settings']['idle_timeout'] = ch.choice([0.05, 0.5, 5.0])
    # slow handlers, so that foreign events pile up while they run
    for h in op['handlers']:
        for step in h.get('script', []):
            if ch.bool(0.5):
                step['dur'] = ch.choice([0.2, 0.5, 1.0])
    op['handlers'].append({'id': 'ev', 'kind': 'event'})
    names = sorted({a['name'] for a in plan['actions'] if a.get('name')} |
                   {o['body']['metadata']['name'] for o in plan['objects']} |
                   {a['body']['metadata']['name'] for a in plan['actions'] if a['do'] == 'create'})
    rules = plan['net']['rules']
    for _ in range(ch.int(1, 5)):
        rules.append({'phase': 'event', 'match': {'kind': 'widgets', 'name': ch.choice(names), 'own_echo': True},
                      'nth': ch.int(1, 8),
                      'action': {'kind': 'event-delay',
                                 'delay': round(ct * ch.choice([0.3, 0.9, 1.0, 1.0, 1.1, 2.0, 4.0]), 6)}})
    triggers = []
    counter = 500
    hids = [h['id'] for h in op['handlers'] if h['kind'] in ('create', 'update', 'delete')]
    for _ in range(ch.int(0, 4)):
        acts = []
        for k in range(ch.int(1, 5)):
            counter += 1
            kind = ch.choice(['spec', 'status', 'other-kopf-annotation', 'label'])
            a = changes.gen_edit(ch, ch.choice(names), counter, kind)
            a = changes.fix_sub(a, plan['kinds'][0].get('status_subresource', False))
            a['delay'] = ch.choice([0.0, 0.05, 0.1, 0.3])
            acts.append(a)
        triggers.append({'on': {'what': ch.choice(['h+', 'h-']), 'hid': ch.choice(hids), 'n': ch.int(0, 2)},
                         'actions': acts})
    # re-listings while a handler runs: the listed snapshot is taken before the handler's patch and is processed after
    # it (a listed object is not 'the freshest by definition')
    for _ in range(ch.int(0, 2)):
        triggers.append({'on': {'what': 'h+', 'hid': ch.choice(hids), 'n': ch.int(0, 1)},
                         'actions': [{'do': 'compact', 'kind': 'widgets', 'delay': ch.choice([0.0, 0.05])},
                                     {'do': 'close-streams', 'kind': 'widgets', 'how': 'eof', 'delay': ch.choice([0.06, 0.1])}]})
    plan['triggers'] = triggers
    plan['net']['lat_hi'] = ch.choice([0.005, 0.02, 0.1])
    plan['until'] = plan['faults_stop'] + 60.0
    return plan


def oracle(run: runner.Run, oc: Outcome) -> None:
    opid = 'op1'
    spec = common.spec_of(run, opid)
    ct = float(spec['settings']['consistency_timeout'])
    # own acknowledged PATCHes: actor, object name -> [(t_ack, version)]
    acks: dict[tuple[str, str], list[tuple[float, int, int]]] = {}
    by_rid = {r.rid: r for r in run.net.requests}
    for e in run.sim.trace:
        if e[2] == 'rsp' and e[4] == 200 and e[5] is not None:
            req = by_rid.get(e[3])
            if req is None or req.method != 'PATCH' or req.attrs.get('kind') != 'widgets':
                continue
            try:
                acks.setdefault((req.session.actor, req.attrs['name']), []).append((e[1], int(e[5]), e[0]))
            except ValueError:
                pass
    barrier_steps = 0
    for c in run.calls:
        if c.hkind not in common.CHANGE_KINDS or c.rv is None:
            continue
        actor = f'{c.op}#{c.inc}'
        try:
            v = int(c.rv)
        except ValueError:
            continue
        for (t_ack, r, seq) in acks.get((actor, c.name), []):
            if seq >= c.seq0:
                break
            if v < r and c.t0 < t_ack + ct - EPS:
                # Did a later sub-request of the same patching (status subresource) find the object gone?
                # Then patch_obj() reports "gone" and the version of the body sub-request that did land is dropped.
                vanished = any(e[2] == 'rsp' and e[4] == 404 and seq < e[0] < c.seq0
                               and (rq := by_rid.get(e[3])) is not None and rq.method == 'PATCH'
                               and rq.session.actor == actor and rq.attrs.get('name') == c.name
                               for e in run.sim.trace)
                oc.add('C07/stale-view', 'after-object-vanished-mid-patch' if vanished else 'before-timeout',
                       f"handler {c.hid} ran at t={c.t0:.4f} on view rv={v} of {c.name} although the operator's own "
                       f"PATCH had been acknowledged with rv={r} at t={t_ack:.4f}, only {c.t0 - t_ack:.3f}s "
                       f"earlier (consistency_timeout={ct})", name=c.name, hid=c.hid)
                break
    # raw-event handlers are not held back by the barrier
    steps = changes.extract_steps(run)
    for (_, uid), lst in steps.items():
        for s in lst:
            if s.consistency_time is not None:
                barrier_steps += 1
            for c in s.calls:
                if c.hkind == 'event' and c.t0 - s.t0 > EPS:
                    oc.add('C07/raw-delayed', 'event-handler-held-back',
                           f"the raw-event handler of {uid} started {c.t0 - s.t0:.3f}s after its processing step "
                           f"began (barrier pending: {s.consistency_time is not None})", uid=uid)
    oc.probes['probe.barrier-steps'] = barrier_steps
    if barrier_steps:
        oc.nontrivial = True


def evaluate(plan: dict[str, Any]) -> Outcome:
    return common.evaluate_closed_loop(plan, oracle)
