"""
C14 -- Resume handlers run once per object per operator process.
"""
from __future__ import annotations

from typing import Any

from kopfsim import runner
from kopfsim.props import changes, common, spawning
from kopfsim.search import Chooser, Outcome

ID = 'C14'
TITLE = 'Resume handlers run once per object per operator process'
LEVEL = 'exploration'
RULE = ('objects handled by a first operator process, then restarts (kill/stop/cancel) and, within each process, watch '
        'reconnects, history compaction (410 Gone -> re-listing), stream resets, edits before/during/after the resume '
        'cycle, resume handlers with failure scripts (with and without deleted=True), deletions. Per (process, object, '
        'resume handler): at most one completed run; objects that existed at start, were handled before and are not being '
        'deleted get it eventually; objects first seen by a watch event never. Distinct = abstract trace signature; '
        'non-trivial = a re-listing happened inside a process after its resume cycle, or a restart happened.')
COMPONENTS = common.COMPONENTS
ASSUMPTIONS = common.BASE_ASSUMPTIONS + [
    'eligibility is judged on the snapshot the process was shown first (listing event)',
]


def gen_plan(ch: Chooser, tier: str) -> dict[str, Any]:
    plan = changes.gen_change_plan(ch, faults=False, restarts=True, subs=ch.bool(0.3), max_failures=2, edits=(1, 8),
                                   causes=('create', 'update', 'delete', 'resume'), horizon=ch.choice([30.0, 60.0]),
                                   late_start=False, allow_perm=True)
    op = plan['operators'][0]
    if not any(h['kind'] == 'resume' for h in op['handlers']):
        op['handlers'].append({'id': 'r1', 'kind': 'resume', 'opts': {},
                               'script': common.gen_script(ch, max_failures=2)})
    horizon = plan['faults_stop']
    if ch.bool(0.3):
        # a resume handler with a label criterion that the objects meet only later, long after the start: resuming
        # is a phase at the start of the process, not a standing offer
        rh = next(h for h in op['handlers'] if h['kind'] == 'resume')
        rh.setdefault('opts', {})['labels'] = {'res': 'yes'}
        names_ = sorted({o['body']['metadata']['name'] for o in plan['objects']} |
                        {a['body']['metadata']['name'] for a in plan['actions'] if a['do'] == 'create'})
        for name_ in names_:
            if ch.bool(0.7):
                plan['actions'].append({'t': round(ch.float(horizon * 0.3, horizon + 10.0), 6), 'do': 'patch', 'name': name_,
                                        'patch': {'metadata': {'labels': {'res': 'yes'}}}, 'essential': True})
        horizon = plan['faults_stop'] = max(horizon, max(a['t'] for a in plan['actions']))
    # edits landing in the middle of a resume cycle (shortly after a start): resuming is superseded by updating
    names2 = sorted({o['body']['metadata']['name'] for o in plan['objects']})
    for a_ in [a for a in plan['actions'] if a['do'] == 'start' and a['t'] > 0.0]:
        if names2 and ch.bool(0.4):
            plan['actions'].append({'t': round(a_['t'] + ch.choice([0.3, 0.8, 1.5, 2.5]), 6), 'do': 'patch',
                                    'name': ch.choice(names2), 'patch': {'spec': {'mid': ch.int(1, 99)}}, 'essential': True})
    for _ in range(ch.int(1, 4)):
        t = ch.float(2.0, horizon)
        how = ch.choice(['relist', 'relist', 'reset', 'eof'])
        if how == 'relist':
            plan['actions'].append({'t': t, 'do': 'compact', 'kind': 'widgets'})
            plan['actions'].append({'t': round(t + 0.01, 6), 'do': 'close-streams', 'kind': 'widgets', 'how': 'eof'})
        else:
            plan['actions'].append({'t': t, 'do': 'close-streams', 'kind': 'widgets', 'how': how})
    plan['actions'].sort(key=lambda a: a['t'])
    plan['until'] = max(a['t'] for a in plan['actions']) + 90.0
    return plan


def oracle(run: runner.Run, oc: Outcome) -> None:
    opid = 'op1'
    spec = common.spec_of(run, opid)
    hspecs = common.handler_specs(run, opid)
    st = common.StorageRef(spec)
    snaps = common.snapshots(run)
    steps = changes.extract_steps(run)
    resume_ids = [hid for hid, h in hspecs.items() if h['kind'] == 'resume']
    # the sub-handlers of resume handlers come under "at most once per process" with them
    sub_specs: dict[str, dict[str, Any]] = {}
    for hid_, h_ in hspecs.items():
        if h_['kind'] == 'resume':
            for sub_ in h_.get('subs', []):
                sub_specs[f"{hid_}/{sub_['id']}"] = dict(sub_, kind='resume', opts=dict(sub_.get('opts', {})))
    relisted = 0
    by_rid = {r.rid: r for r in run.net.requests}
    incs = run.ops.get(opid, [])
    for (op, uid), lst in steps.items():
        by_actor: dict[str, list[changes.Step]] = {}
        for s in lst:
            by_actor.setdefault(s.actor, []).append(s)
        for actor, ss in by_actor.items():
            inc = int(actor.split('#')[1])
            oper = incs[inc - 1] if inc - 1 < len(incs) else None
            first = ss[0]
            listings = [s for s in ss if s.etype is None]
            if len(listings) > 1:
                relisted += 1
            first_view = snaps.get((uid, first.rv))
            listed_first = first.etype is None
            name_of = next((c.name for s in ss for c in s.calls if c.name), None)

            def vanished_between(seq_a: float, seq_b: float) -> bool:
                # a PATCH of this process for this object answered 404: what it carried (records) never landed, and
                # the events still queued for the vanished object are processed without it (by design)
                return any(e[2] == 'rsp' and e[4] == 404 and seq_a <= e[0] <= seq_b
                           and (rq := by_rid.get(e[3])) is not None and rq.method == 'PATCH' and rq.session.actor == actor
                           and rq.attrs.get('name') == name_of for e in run.sim.trace)

            for hid in resume_ids + sorted(sub_specs):
                h = hspecs.get(hid) or sub_specs[hid]
                calls = [c for s in ss for c in s.calls if c.hid == hid]
                finals = [c for c in calls if changes.final_outcome(c, h)]
                is_parent = bool(h.get('subs'))   # re-entered for its children by design: the children are judged
                if hid in sub_specs:
                    if len(finals) > 1 and not any(s_.how != 'returned' for s_ in ss) \
                            and not vanished_between(finals[0].seq0, finals[1].seq0):
                        # told apart: its record went with the leftovers of a superseded cause (kopf purges ALL records
                        # then and writes back only the top-level ones that it re-purposes) -- i.e. the write that removed
                        # it also removed the record of some other top-level handler
                        key_ = st.key_name(hid)
                        with_leftovers = False
                        for t_ in run.transitions:
                            if t_.uid != uid or t_.actor != actor or t_.before is None or t_.after is None:
                                continue
                            if not (finals[0].t0 <= t_.t <= finals[1].t0):
                                continue
                            rb, ra = st.records(t_.before), st.records(t_.after)
                            if key_ in rb and key_ not in ra:
                                gone_ = [k for k in rb if k not in ra and '.' not in k and k != st.key_name(hid.split('/')[0])]
                                with_leftovers = bool(gone_)
                        oc.add('C14/repeated', 'sub-handler-record-purged-with-the-leftovers-of-a-superseded-cause'
                               if with_leftovers else 'sub-handler-twice-in-one-process',
                               f"sub-handler {hid} of a resume handler completed {len(finals)} times for {uid} in process "
                               f"{actor} (at t={[round(c.t0, 3) for c in finals]})", uid=uid, hid=hid)
                    continue
                # An object deleted under a running handler: the write of its outcome meets a 404 and is dropped
                # silently (by design); the events still queued for the vanished object are processed without it.
                vanished = len(finals) > 1 and any(
                    e[2] == 'rsp' and e[4] == 404 and finals[0].seq0 <= e[0] <= finals[1].seq0
                    and (rq := by_rid.get(e[3])) is not None and rq.method == 'PATCH' and rq.session.actor == actor
                    and rq.attrs.get('name') == finals[0].name for e in run.sim.trace)
                if vanished:
                    oc.probes['probe.repeated-for-a-vanished-object'] = oc.probes.get('probe.repeated-for-a-vanished-object', 0) + 1
                elif len(finals) > 1 and not is_parent:
                    # told apart: the repetition ran on a view older than a write this process had already had
                    # acknowledged, after the process was asked to exit (its streams are closed then, the echo of the
                    # write cannot come, and the queued older event is processed once the consistency timeout is over)
                    t_exit = min([x for x in (oper.t_stop_requested if oper else None,) if x is not None] +
                                 [e[1] for e in run.sim.trace if e[2] == 'op-cancel' and e[3] == actor], default=None)
                    again = finals[1]
                    stale = any(t.uid == uid and t.actor == actor and t.after is not None and t.t < again.t0
                                and int(t.after['metadata']['resourceVersion']) > int(again.rv or 0) for t in run.transitions)
                    blind_at_exit = stale and t_exit is not None and again.t0 >= t_exit
                    oc.add('C14/repeated', 'on-stale-view-while-exiting' if blind_at_exit else 'twice-in-one-process',
                           f"resume handler {hid} completed {len(finals)} times for {uid} in process {actor} "
                           f"(at t={[round(c.t0, 3) for c in finals]}); listings seen: {len(listings)}", uid=uid, hid=hid)
                # not for objects being deleted, unless the handler opted in
                if not h.get('opts', {}).get('deleted'):
                    for c in calls:
                        v_ = snaps.get((uid, c.rv))
                        if v_ is not None and (v_.get('metadata') or {}).get('deletionTimestamp') is not None:
                            oc.add('C14/not-eligible', 'deleting-without-opt-in',
                                   f"resume handler {hid} (no deleted=True) ran for {uid}@{c.rv} in process {actor} although "
                                   f"that view carries a deletion mark", uid=uid, hid=hid)
                            break
                # ... and only in the resuming phase: once a step of this process has left the object with nothing
                # pending (the first cycle is over -- with or without handlers selected), resume handlers are out
                phase_over = None
                for s_ in ss:
                    if phase_over is None and s_.how == 'returned' and s_.etype != 'DELETED':
                        # (the state of the object on the server when the step ended, not the possibly older view of it)
                        after_ = next((t_.after for t_ in reversed(run.transitions)
                                       if t_.uid == uid and t_.after is not None and s_.t1 is not None and t_.t <= s_.t1), None)
                        # (over = a cycle was closed: the handled state was written, or the step found nothing to do /
                        # finished the resuming itself; a step that merely adds the finalizer closes nothing)
                        closed_ = any(w_.after is not None and st.last_handled(w_.after) != st.last_handled(w_.before)
                                      for w_ in s_.writes) or s_.reason in ('resume', 'noop')
                        if after_ is not None and closed_ and not st.records(after_) \
                                and not any(c.hkind in common.CHANGE_KINDS and c.outcome is None for c in s_.calls):
                            phase_over = s_
                            continue
                    if phase_over is not None and any(c.hid == hid for c in s_.calls) \
                            and not vanished_between(ss[0].seq0, s_.seq0) \
                            and not common.late_echoes(run, 0.9 * float(spec['settings'].get('consistency_timeout', 5.0))):
                        oc.add('C14/not-eligible', 'after-the-resuming-phase',
                               f"resume handler {hid} ran for {uid}@{s_.rv} in process {actor} at t={s_.t0:.3f} although the "
                               f"object's first cycle in this process was over at t={phase_over.t1}", uid=uid, hid=hid)
                        break
                if calls and not listed_first:
                    oc.add('C14/not-eligible', 'first-seen-by-event',
                           f"resume handler {hid} ran for {uid} in process {actor} although the object was first seen "
                           f"there through a {first.etype} watch event, not at start", uid=uid, hid=hid)
                # eligible objects get it eventually
                if oper is None or first_view is None or not listed_first:
                    continue
                meta = first_view.get('metadata') or {}
                eligible = st.last_handled(first_view) is not None and meta.get('deletionTimestamp') is None \
                    and not st.records(first_view) and spawning.matches(h, first_view)
                t_last = oper.t_killed or (oper.exit[0] if oper.exit else None) or oper.t_stop_requested or run.sim.now
                lived = t_last - first.t0
                gone = any(s.etype == 'DELETED' or (s.reason in ('delete', 'free')) for s in ss) or \
                    any(t.uid == uid and t.verb in ('delete', 'delete-mark') for t in run.transitions)
                if eligible and not finals and lived > 40.0 and not gone and not run.step_capped:
                    oc.add('C14/missed', 'eligible-not-resumed',
                           f"{uid} existed at the start of process {actor}, had been handled before and was not being "
                           f"deleted, but resume handler {hid} never completed there in {lived:.0f}s "
                           f"(calls: {[(c.n, c.outcome) for c in calls]})", uid=uid, hid=hid)
    oc.probes['probe.relisted-within-process'] = relisted
    if relisted or len(incs) > 1:
        oc.nontrivial = True


def evaluate(plan: dict[str, Any]) -> Outcome:
    return common.evaluate_closed_loop(plan, oracle)
