"""
C02 -- Recorded handler progress governs invocation (no re-run of finished handlers).
"""
from __future__ import annotations

from typing import Any, Optional

from kopfsim import runner
from kopfsim.props import changes, common
from kopfsim.search import Chooser, Outcome

ID = 'C02'
TITLE = 'Recorded handler progress governs invocation'
LEVEL = 'exploration'
RULE = ('full operator in a closed loop; 1-3 objects, 1-3 unfiltered handlers per cause with scripted outcomes '
        '(success / temporary with delay / permanent / arbitrary x errors mode), sub-handlers, all lifecycles, '
        'progress storages (annotations/status/smart, prefixes), foreign essential and non-essential edits mid-cycle; '
        'two tiers by seed: fault-free (strict exactly-once and retry numbering) and fault (kills with in-flight '
        'write applied/not applied, stops, lost/failed PATCH responses, echo delays beyond the consistency timeout, '
        'stalls, stream breaks; narrow excuses). Distinct = abstract trace signature; non-trivial = a fault fired '
        'or a multi-step cycle (a retry or >= 2 handlers in one cycle) occurred.')
COMPONENTS = common.COMPONENTS
ASSUMPTIONS = common.BASE_ASSUMPTIONS + [
    'handler ids are unique per cause (documented usage); no retries=/timeout= limits here (C11 covers them)',
    'a cycle is delimited by a change of the detected cause or by the operator\'s own purge / last-handled write',
]


def gen_plan(ch: Chooser, tier: str) -> dict[str, Any]:
    faulty = ch.bool(0.5)
    plan = changes.gen_change_plan(ch, faults=faulty, restarts=faulty and ch.bool(0.7), subs=True,
                                   limits=False)
    plan['tier_kind'] = 'fault' if faulty else 'fault-free'
    if ch.bool(0.15):
        # a slowly stopping daemon next to the change handlers (deletion then waits for it)
        plan['operators'][0]['handlers'].append({
            'id': 'dmx', 'kind': 'daemon',
            'opts': {'cancellation_backoff': ch.choice([0.3, 1.0]), 'cancellation_timeout': ch.choice([0.5, 2.0])},
            'daemon': ch.choice([{'mode': 'obey', 'exit_delay': 0.5}, {'mode': 'cancel'}, {'mode': 'ignore', 'hold': 1.0}])})
    if ch.bool(0.15):
        # targeted history: a resuming cycle of several steps (one resume handler done, another retrying) is superseded
        # by an edit or a deletion in the middle -- the records of the handlers still selected must survive the supersession
        hs = plan['operators'][0]['handlers']
        hs[:] = [h for h in hs if h['kind'] != 'resume']
        hs.append({'id': 'r1', 'kind': 'resume', 'opts': {'deleted': True} if ch.bool(0.5) else {},
                   'script': [ch.choice([{'do': 'ok', 'dur': 0.0}, {'do': 'perm', 'dur': 0.0}, {'do': 'ok', 'dur': 0.3}])]})
        hs.append({'id': 'r2', 'kind': 'resume', 'opts': {'deleted': True} if ch.bool(0.5) else {},
                   'script': [{'do': 'temp', 'dur': 0.0, 'delay': ch.choice([1.0, 2.0])}] * ch.int(1, 2) + [{'do': 'ok', 'dur': 0.0}]})
        if ch.bool(0.5):
            hs.append({'id': 'r3', 'kind': 'resume', 'opts': {}, 'script': [{'do': 'ok', 'dur': ch.choice([0.0, 0.2])}]})
        plan['operators'][0]['lifecycle'] = ch.choice([None, 'asap', 'one_by_one', 'all_at_once'])
        names = sorted({o['body']['metadata']['name'] for o in plan['objects']} |
                       {a_['body']['metadata']['name'] for a_ in plan['actions'] if a_['do'] == 'create'})
        t_r = round(ch.float(plan.get('horizon', 30.0) * 0.5, plan.get('horizon', 30.0)), 6)
        plan['actions'] = [a_ for a_ in plan['actions'] if a_['t'] < t_r or a_['do'] not in ('kill', 'stop', 'cancel', 'start')]
        plan['actions'].append({'t': t_r, 'do': ch.choice(['stop', 'kill']), 'op': 'op1'})
        plan['actions'].append({'t': round(t_r + 3.0, 6), 'do': 'start', 'op': 'op1'})
        for name in names:
            t_e = round(t_r + 3.0 + ch.choice([0.3, 0.8, 1.5, 2.5]), 6)
            if ch.bool(0.75):
                plan['actions'].append({'t': t_e, 'do': 'patch', 'name': name, 'patch': {'spec': {'late': ch.int(1, 99)}}})
            else:
                plan['actions'].append({'t': t_e, 'do': 'delete', 'name': name})
        plan['actions'].sort(key=lambda a_: a_['t'])
        plan['until'] = max(plan.get('until', 0.0), t_r + 60.0)
        plan['tier_kind'] = 'fault'
    return plan


def _selected(hspecs: dict[str, dict[str, Any]], reason: str, initial: bool) -> list[str]:
    out = [hid for hid, h in hspecs.items() if h['kind'] == reason]
    if initial:
        for hid, h in hspecs.items():
            if h['kind'] == 'resume' and (reason != 'delete' or h.get('opts', {}).get('deleted')):
                out.append(hid)
    return out


def oracle(run: runner.Run, oc: Outcome) -> None:
    opid = 'op1'
    st = common.StorageRef(common.spec_of(run, opid))
    hspecs = common.handler_specs(run, opid)
    subspecs: dict[str, dict[str, Any]] = {}
    for hid, h in hspecs.items():
        for sub in h.get('subs', []):
            subspecs[f"{hid}/{sub['id']}"] = dict(sub, kind=h['kind'], opts=sub.get('opts', {}))
    allspecs = dict(hspecs, **subspecs)
    fault_free = run.plan.get('tier_kind') == 'fault-free' and not common.disruptive_faults(run)
    steps = changes.extract_steps(run)
    multi_step = False
    snapshots: dict[tuple[Any, str], dict[str, Any]] = {}
    for tr in run.transitions:
        for obj in (tr.before, tr.after):
            if obj is not None:
                snapshots[(obj['metadata'].get('uid'), obj['metadata'].get('resourceVersion'))] = obj
    ctimeout = float(common.spec_of(run, opid)['settings'].get('consistency_timeout', 5.0))

    for (op, uid), lst in steps.items():
        # ---------------- A. view-based clauses (valid under every fault) ----------------
        for s in lst:
            for c in s.calls:
                if c.hkind not in common.CHANGE_KINDS:
                    continue
                rec = st.record_for(c.body, c.hid)
                if common.finished(rec):
                    oc.add('C02/finished-reinvoked', f"{c.hkind}:{'failure' if rec.get('failure') else 'success'}",
                           f"handler {c.hid} was invoked (call #{c.n}, retry={c.retry}) on a body (rv={c.rv}) "
                           f"that already records it as finished: {rec}", uid=uid, hid=c.hid)
                want_retry = int((rec or {}).get('retries') or 0)
                if c.retry != want_retry:
                    oc.add('C02/retry-number', 'view',
                           f"handler {c.hid} got retry={c.retry} but the body it was given records "
                           f"retries={want_retry} ({rec})", uid=uid, hid=c.hid)

        # ---------------- A2. a finished record is not dropped before the close (server-side) ----------------
        # "never invoked again" must not be dodged by deleting the record: a write of this process that removes the
        # finished record of a top-level handler while other records of the operator stay (so it is not the close),
        # followed by a new invocation of that very handler for the object in the same process. (Records of handlers
        # that a superseding cause no longer selects are purged by design: those handlers are not invoked again.)
        for tr in run.transitions:
            if tr.uid != uid or common.op_of(tr.actor) != op or tr.before is None or tr.after is None:
                continue
            rb, ra = st.records(tr.before), st.records(tr.after)
            if not ra:
                continue
            wstep = next((s_ for s_ in lst if any(w_ is tr for w_ in s_.writes)), None)
            if wstep is None:
                continue
            for hid, h in hspecs.items():
                if h['kind'] not in common.CHANGE_KINDS or h.get('subs'):
                    continue
                # only handlers that the cause of that very step still selects (a superseding cause purges the others)
                selected = h['kind'] == wstep.reason or (h['kind'] == 'resume' and (
                    wstep.reason in ('create', 'update') or (wstep.reason == 'delete' and h.get('opts', {}).get('deleted'))))
                if not selected:
                    continue
                key = st.key_name(hid)
                if key in ra or not common.finished(rb.get(key)):
                    continue
                again = [c for s in lst if s.actor == tr.actor for c in s.calls
                         if c.hid == hid and c.t0 > tr.t and st.record_for(c.body, hid) is None
                         and int(c.rv or 0) >= int(tr.after['metadata']['resourceVersion'])]
                if again:
                    oc.add('C02/record-dropped', f"{h['kind']}-handler-reinvoked",
                           f"the finished record of handler {hid} ({rb.get(key)}) was removed from {uid} by the operator's "
                           f"write at t={tr.t:.4f} while other records stayed ({sorted(ra)}): not a close; the handler "
                           f"was invoked again at t={again[0].t0:.4f} (retry={again[0].retry})", uid=uid, hid=hid)
                    break

        # ---------------- cycles: delimited by cause change or by an own close ----------------
        cycles: list[list[changes.Step]] = []
        cur: list[changes.Step] = []
        cur_reason: Optional[str] = None
        cur_actor: Optional[str] = None
        for s in lst:
            if s.reason in ('create', 'update', 'delete', 'resume'):
                if cur and (s.reason != cur_reason or (s.reason == 'resume' and s.actor != cur_actor)):
                    cycles.append(cur)
                    cur = []
                cur_reason, cur_actor = s.reason, s.actor
                cur.append(s)
                # The cycle is closed when, after this step, nothing of ours is pending on the object.
                view = snapshots.get((uid, s.rv))
                state_after = s.writes[-1].after if s.writes else view
                released = s.reason != 'delete' or state_after is None or not st.has_finalizer(state_after)
                if s.how == 'returned' and (s.calls or s.writes) and not st.records(state_after) and released:
                    cycles.append(cur)
                    cur = []
            elif s.reason in ('gone',):
                if cur:
                    cycles.append(cur)
                    cur = []
                cur_reason = None
            elif s.reason in ('noop', 'free') and s.writes and not st.records(s.writes[-1].after):
                # an abandoned cycle's leftovers were purged (the change under handling was reverted)
                if cur:
                    cycles.append(cur)
                    cur = []
                cur_reason = None
        if cur:
            cycles.append(cur)

        # ---------------- B. per-cycle sequence clauses ----------------
        for cyc in cycles:
            # An object deleted under a running handler: the step's write meets a 404 and is dropped silently
            # (by design); the events still queued for it are then processed on outdated records.
            seq_lo = cyc[0].seq0
            seq_hi = cyc[-1].seq1 if cyc[-1].seq1 is not None else float('inf')
            if any(e[2] == 'rsp' and e[4] == 404 and seq_lo <= e[0] <= seq_hi for e in run.sim.trace):
                continue
            calls = [c for s in cyc for c in s.calls if c.hkind in common.CHANGE_KINDS]
            by_h: dict[str, list[runner.Call]] = {}
            for c in calls:
                by_h.setdefault(c.hid, []).append(c)
            if len(by_h) > 1 or any(len(v) > 1 for v in by_h.values()):
                multi_step = True
            for hid, cs in by_h.items():
                is_parent = bool(allspecs.get(hid, {}).get('subs'))
                oks = [c for c in cs if c.outcome == 'ok']
                if len(oks) > 1 and not is_parent:
                    excuse = changes.fault_between(run, oks[0].seq0, oks[-1].seq0, min_echo_delay=ctimeout * 0.9)
                    if excuse is None:
                        # The echo of an own write of this object was once delayed beyond the consistency timeout:
                        # the operator then acted on a view without its own records (by design), and the write of
                        # that blind step can leave the records of two cycles mixed for the steps that follow.
                        if any(e[2] == 'fault-echo' and e[4] == oks[-1].name and e[7] - e[6] >= ctimeout * 0.9
                               and e[6] <= oks[-1].t0 for e in run.sim.trace) or \
                                any(n_ == oks[-1].name and tw_ <= oks[-1].t0
                                    for (n_, tw_, _) in common.late_echoes(run, ctimeout * 0.9)):
                            excuse = 'blind-echo'
                            oc.probes['probe.double-success-after-blind-step'] = \
                                oc.probes.get('probe.double-success-after-blind-step', 0) + 1
                    if excuse is None:
                        # the step of an earlier success did not complete (stopped/killed/failed mid-way)
                        for st_ in cyc:
                            if st_.seq0 <= oks[-1].seq0 and (st_.seq1 is None or st_.seq1 >= oks[0].seq0) \
                                    and st_.how != 'returned':
                                excuse = f'step-{st_.how}'
                    stopping = [d for d in run.calls if d.hkind == 'daemon' and d.uid == uid
                                and d.t0 <= oks[-1].t0 and (d.t1 is None or d.t1 >= cyc[0].t0)]
                    if (fault_free or excuse is None) and stopping and cyc[0].reason == 'delete':
                        oc.add('C02/double-success', 'delete-while-daemons-stop',
                               f"delete handler {hid} succeeded {len(oks)} times (calls {[c.n for c in oks]}) for {uid} "
                               f"while daemon {stopping[0].hid} of that object was still being stopped", uid=uid, hid=hid)
                    elif fault_free or excuse is None:
                        oc.add('C02/double-success', 'fault-free' if fault_free else 'unexcused',
                               f"handler {hid} succeeded {len(oks)} times within one handling cycle of {uid} "
                               f"(calls {[c.n for c in oks]}) with no crash/lost response/echo delay in between",
                               uid=uid, hid=hid)
                dstop = cyc[0].reason == 'delete' and any(
                    d.hkind == 'daemon' and d.uid == uid and d.t0 <= cs[-1].t0 and (d.t1 is None or d.t1 >= cyc[0].t0)
                    for d in run.calls)
                if fault_free and not is_parent:
                    retries = [c.retry for c in cs]
                    if retries != list(range(len(retries))):
                        oc.add('C02/retry-number', 'delete-while-daemons-stop' if dstop else 'sequence',
                               f"handler {hid}: retry numbers within one cycle are {retries}, expected 0,1,2,...",
                               uid=uid, hid=hid)
                # no call after a final outcome within the cycle (fault-free)
                if fault_free and not is_parent:
                    for a, b in zip(cs, cs[1:]):
                        if changes.final_outcome(a, allspecs.get(hid, {})):
                            oc.add('C02/finished-reinvoked', 'delete-while-daemons-stop' if dstop else 'sequence',
                                   f"handler {hid} was invoked again (call #{b.n}) after its final outcome "
                                   f"{a.outcome!r} (call #{a.n}) within one cycle of {uid}", uid=uid, hid=hid)
                            break

        # ---------------- C. close is not early ----------------
        def cyc_t0(step: changes.Step) -> float:
            for cyc_ in cycles:
                if step in cyc_:
                    return cyc_[0].t0
            return step.t0

        for s in lst:
            if s.reason not in ('create', 'update', 'delete', 'resume'):
                continue
            view = snapshots.get((uid, s.rv))
            view_recs = st.records(view) if view is not None else None
            # A step whose view is older than this operator's own acknowledged writes acts on outdated
            # information by design (after the consistency timeout): its decisions are not judged here.
            own_before = [int(t.after['metadata']['resourceVersion']) for t in run.transitions
                          if t.uid == uid and common.op_of(t.actor) == opid and t.after is not None
                          and t.seq < s.seq0]
            try:
                stale_view = bool(own_before) and int(s.rv) < max(own_before)
            except (TypeError, ValueError):
                stale_view = False
            if not stale_view:
                # ... and so is every later step of an object whose own echo was once delayed beyond the
                # consistency timeout (the stale step's write may have mixed two cycles' records).
                name_ = (view or {}).get('metadata', {}).get('name')
                stale_view = any(e[2] == 'fault-echo' and e[4] == name_ and e[7] - e[6] >= ctimeout * 0.9
                                 and e[6] <= s.t0 for e in run.sim.trace) or \
                    any(n_ == name_ and tw_ <= s.t0 for (n_, tw_, _) in common.late_echoes(run, ctimeout * 0.9))
            if stale_view:
                oc.probes['probe.stale-view-step'] = oc.probes.get('probe.stale-view-step', 0) + 1
            for w in (s.writes if not stale_view else []):
                before_recs = st.records(w.before)
                after_recs = st.records(w.after) if w.after is not None else {}
                final_now = {c.hid for c in s.calls if c.seq1 is not None and c.seq1 <= w.seq
                             and changes.final_outcome(c, allspecs.get(c.hid, {}))}
                judged = view_recs if view_recs is not None else before_recs
                # (i) a record that kopf saw as unfinished must not be removed unless finalised now or superseded
                for key, rec in judged.items():
                    if key in after_recs or key not in before_recs or common.finished(rec):
                        continue
                    hid = next((h for h in allspecs if st.key_name(h) == key), None)
                    if hid is None or hid in final_now:
                        continue
                    if rec.get('purpose') and rec.get('purpose') != s.reason:
                        continue  # superseded by another cause: legitimately abandoned
                    if allspecs[hid].get('subs'):
                        continue  # parents are finalised by their children; judged by clause D
                    if any(c.hid == hid and c.uid == uid and c.seq1 is not None and c.seq1 < w.seq and c.t0 >= cyc_t0(s)
                           and changes.final_outcome(c, allspecs.get(hid, {})) for c in run.calls if c.op == opid):
                        continue  # it did finish earlier in this cycle; the write of that outcome was refused or lost
                    if '/' in hid:
                        # the sub-handlers of a parent that has given up for good (now, or as recorded) are abandoned
                        # with it: the parent's code, which declares them, is not going to run again
                        parent = hid.rsplit('/', 1)[0]
                        prec = judged.get(st.key_name(parent)) or {}
                        gave_up = bool(prec.get('failure')) or any(
                            c.hid == parent and c.outcome == 'perm' and c.seq1 is not None and c.seq1 <= w.seq for c in s.calls)
                        if gave_up:
                            continue
                    # were the leftovers of a superseded cause purged by the same write? (kopf purges ALL records then,
                    # and re-stores only those that change in this step)
                    with_extras = any(r_.get('purpose') and r_.get('purpose') != s.reason and k_ not in after_recs
                                      for k_, r_ in before_recs.items())
                    oc.add('C02/closed-early',
                           'purged-with-the-leftovers-of-a-superseded-cause' if with_extras else 'unfinished-record-purged',
                           f"the progress record of handler {hid} ({rec}) was removed from {uid} in a "
                           f"{s.reason} step (view rv={s.rv}) although the handler had not finished", uid=uid, hid=hid)
                # (ii) the last-handled state is written only when every selected handler is finished
                if w.after is not None and st.last_handled(w.after) != st.last_handled(w.before):
                    for hid in _selected(hspecs, s.reason or '', bool(s.initial)):
                        done = common.finished(judged.get(st.key_name(hid))) or hid in final_now
                        if hspecs[hid].get('subs'):
                            done = done or any(c.hid == hid for c in s.calls)
                        if not done:
                            oc.add('C02/closed-early', 'last-handled-written',
                                   f"the last-handled state of {uid} was written in a {s.reason} step (view rv={s.rv}) "
                                   f"while the selected handler {hid} had neither a finished record in that view "
                                   f"nor a final outcome in this step", uid=uid, hid=hid)
                # ---------------- D. parents after children ----------------
                for key, rec in after_recs.items():
                    if common.finished(rec) and rec.get('subrefs') and not rec.get('failure'):
                        for sub in rec['subrefs']:
                            subrec = after_recs.get(st.key_name(sub))
                            # (a child that had finished, and whose record then went with the leftovers of a superseded
                            # cause while the re-purposed parent's stayed, did not finish after its parent)
                            seen_fin = oc.__dict__.setdefault('_children_seen_finished', {}).setdefault(uid, set())
                            if common.finished(subrec) or common.finished(before_recs.get(st.key_name(sub))):
                                seen_fin.add(st.key_name(sub))
                            if subrec is None and st.key_name(sub) in seen_fin:
                                continue
                            if not common.finished(subrec):
                                oc.add('C02/parent-before-children', 'parent-finished',
                                       f"{uid}: parent record {key} is finished while its sub-handler {sub} is not "
                                       f"({subrec})", uid=uid)
    oc.probes['probe.multi-step-cycle'] = 1 if multi_step else 0
    oc.probes['probe.fault-free-run'] = 1 if fault_free else 0
    if multi_step:
        oc.nontrivial = True


def evaluate(plan: dict[str, Any]) -> Outcome:
    return common.evaluate_closed_loop(plan, oracle)
