"""
The transport between the simulated operators and the FakeCluster.

`FakeSession` is handed to kopf through its own `kopf.AiohttpSession` credentials
type, so `api.request`, `errors.check_response`, `api.stream`, `auth.authenticated`
and the `Vault` all run for real on top of it. Every request becomes two external
events of the simulator (arrival at the server, arrival of the response), each with
a keyed latency, and may be hit by a fault rule from the plan.
"""
from __future__ import annotations

import asyncio
import collections
import copy
import json
import re
import types
import urllib.parse
from typing import Any, Optional

import aiohttp

from kopfsim import cluster as cl
from kopfsim import core


class FakeStream:
    """Stand-in for aiohttp.StreamReader (only `iter_chunked` is used by kopf)."""

    def __init__(self, owner: "FakeResponse") -> None:
        self.owner = owner
        self.chunks: collections.deque[bytes] = collections.deque()
        self.waiter: Optional[asyncio.Future[None]] = None
        self.eof = False
        self.exc: Optional[BaseException] = None
        self.client_closed = False
        self.delivered_lines = 0

    # server/transport side (external events)
    def feed(self, data: bytes) -> None:
        if self.eof or self.exc is not None or self.client_closed:
            return
        self.chunks.append(data)
        self._wake()

    def feed_eof(self) -> None:
        self.eof = True
        self._wake()

    def fail(self, exc: BaseException) -> None:
        if self.exc is None and not self.eof:
            self.exc = exc
            # As aiohttp's StreamReader.set_exception(): a parked reader gets the exception thrown in through
            # its waiter; a busy reader meets it on its next read. (The two differ in which frames the
            # traceback keeps alive, and so in when abandoned generators up the stack get finalized.)
            if self.waiter is not None and not self.waiter.done():
                self.waiter.set_exception(exc)

    def client_close(self) -> None:
        self.client_closed = True
        self._wake()

    def _wake(self) -> None:
        if self.waiter is not None and not self.waiter.done():
            self.waiter.set_result(None)

    # client side
    def iter_chunked(self, n: int) -> "FakeStream":
        self._n = n
        return self

    def __aiter__(self) -> "FakeStream":
        return self

    async def __anext__(self) -> bytes:
        while True:
            if self.client_closed:
                raise aiohttp.ServerDisconnectedError()
            if self.chunks:
                data = b''
                while self.chunks and len(data) + len(self.chunks[0]) <= self._n:
                    data += self.chunks.popleft()
                if not data:  # a single chunk larger than n
                    first = self.chunks.popleft()
                    data, rest = first[:self._n], first[self._n:]
                    self.chunks.appendleft(rest)
                return data
            if self.exc is not None:
                raise self.exc
            if self.eof:
                raise StopAsyncIteration
            self.waiter = asyncio.get_running_loop().create_future()
            try:
                await self.waiter
            finally:
                self.waiter = None


class FakeResponse(aiohttp.ClientResponse):
    """
    A response object that `isinstance(_, aiohttp.ClientResponse)` accepts (kopf tracks
    open responses by that), with every member kopf touches overridden.
    """

    def __init__(self, *, status: int, payload: Any, headers: dict[str, str], method: str,
                 url: str, text: Optional[str] = None, stream: bool = False) -> None:
        # NB: no super().__init__() on purpose.
        self._sim_status = status
        self._sim_payload = payload
        self._sim_headers = dict(headers)
        self._sim_text = text
        self._sim_closed = False
        self._sim_method = method
        self._sim_url = url
        self._sim_stream: Optional[FakeStream] = FakeStream(self) if stream else None
        self.on_close: Optional[Any] = None

    def __del__(self, _warnings: Any = None) -> None:
        pass

    def __repr__(self) -> str:
        return f'<FakeResponse {self._sim_status} {self._sim_method} {self._sim_url}>'

    status = property(lambda self: self._sim_status)  # type: ignore[assignment]
    reason = property(lambda self: 'sim')  # type: ignore[assignment]
    headers = property(lambda self: self._sim_headers)  # type: ignore[assignment]
    closed = property(lambda self: self._sim_closed)  # type: ignore[assignment]
    content = property(lambda self: self._sim_stream)  # type: ignore[assignment]
    ok = property(lambda self: self._sim_status < 400)  # type: ignore[assignment]

    @property
    def request_info(self) -> Any:  # type: ignore[override]
        return types.SimpleNamespace(real_url=self._sim_url, url=self._sim_url,
                                     method=self._sim_method, headers={})

    @property
    def history(self) -> tuple:  # type: ignore[override,type-arg]
        return ()

    def close(self) -> None:
        if not self._sim_closed:
            self._sim_closed = True
            if self._sim_stream is not None:
                self._sim_stream.client_close()
            if self.on_close is not None:
                self.on_close()

    def release(self) -> Any:
        self.close()

    async def wait_for_close(self) -> None:
        return None

    async def __aenter__(self) -> "FakeResponse":
        return self

    async def __aexit__(self, *exc: Any) -> None:
        self.release()

    async def json(self, **kwargs: Any) -> Any:  # type: ignore[override]
        if self._sim_text is not None:
            raise aiohttp.ContentTypeError(self.request_info, (), status=self._sim_status,
                                           message='not json', headers=self._sim_headers)  # type: ignore[arg-type]
        return json.loads(json.dumps(self._sim_payload))

    async def text(self, **kwargs: Any) -> str:  # type: ignore[override]
        if self._sim_text is not None:
            return self._sim_text
        return json.dumps(self._sim_payload)

    async def read(self) -> bytes:
        return (await self.text()).encode()

    def raise_for_status(self) -> None:
        if self._sim_status >= 400:
            self.release()
            raise aiohttp.ClientResponseError(
                self.request_info, (), status=self._sim_status, message='sim',
                headers=self._sim_headers)  # type: ignore[arg-type]


class Request:
    __slots__ = ('rid', 'session', 'loop', 'fut', 'method', 'url', 'path', 'query', 'payload',
                 'headers', 'timeout', 't_sent', 'attrs', 'fault', 'applied', 'done', 'response')

    def __init__(self) -> None:
        self.fault: Optional[dict[str, Any]] = None
        self.applied = False
        self.done = False
        self.response: Optional[FakeResponse] = None


class FakeSession:
    """What kopf believes to be an aiohttp.ClientSession."""

    def __init__(self, net: "Network", actor: str, loop: Optional[core.SimLoop] = None,
                 token: str = 't0') -> None:
        self.net = net
        self.actor = actor
        self.loop = loop
        self.token = token
        self.headers: dict[str, str] = {}
        self._closed = False
        self.dead = False  # the owning process was killed
        self.revoked = False  # the credentials were invalidated server-side (401 for everything)
        self.requests_started = 0

    @property
    def closed(self) -> bool:
        return self._closed

    async def close(self) -> None:
        self._closed = True
        self.net.sim.log('session-close', self.actor, self.token)

    def request(self, method: str, url: str, *, json: Any = None,
                headers: Optional[dict[str, str]] = None, timeout: Any = None,
                **kwargs: Any) -> Any:
        return self._request(method, url, json, headers or {}, timeout)

    async def _request(self, method: str, url: str, payload: Any, headers: dict[str, str],
                       timeout: Any) -> FakeResponse:
        if self._closed:
            self.net.sim.count('probe.request-on-closed-session')
            self.net.closed_session_attempts.append((self.net.sim.now, self.actor, self.token))
            raise RuntimeError("Session is closed")
        loop = asyncio.get_running_loop()
        fut: asyncio.Future[FakeResponse] = loop.create_future()
        self.requests_started += 1
        req = self.net.submit(self, loop, fut, method, url, payload, headers, timeout)
        # For which object does the issuing task work? (per-object workers are named after the uid)
        task = asyncio.current_task()
        m = _WORKER_NAME.search(task.get_name()) if task is not None else None
        req.attrs['intended_uid'] = m.group(1) if m else core.current_uid.get()
        try:
            return await fut
        except asyncio.CancelledError:
            req.done = True
            raise


_WORKER_NAME = re.compile(r"^worker for \(.*, '([^']+)'\)$")
_URL_KIND = re.compile(r'/([a-z]+)(?:/([^/?]+))?(?:/(status))?$')


class Network:
    """
    Latencies, fault rules, bookkeeping of requests and watch connections.

    Latencies are keyed: f(latency_seed, actor, method, path, occurrence#, phase), so they
    do not depend on arrival order and stay stable when the minimiser deletes other steps.
    """

    def __init__(self, sim: core.Sim, cluster: cl.FakeCluster, *, latency_seed: int = 0,
                 lat_lo: float = 0.001, lat_hi: float = 0.01, watch_lat_lo: float = 0.001,
                 watch_lat_hi: float = 0.01, rules: Optional[list[dict[str, Any]]] = None,
                 snap_prob: float = 0.0, snap_window: float = 0.0,
                 chunking: str = 'line') -> None:
        self.sim = sim
        self.cluster = cluster
        self.latency_seed = latency_seed
        self.lat_lo, self.lat_hi = lat_lo, lat_hi
        self.watch_lat_lo, self.watch_lat_hi = watch_lat_lo, watch_lat_hi
        self.rules = [dict(r, _hits=0, _seen=0) for r in (rules or [])]
        self.snap_prob = snap_prob
        self.snap_window = snap_window
        self.chunking = chunking
        self.occurrences: collections.Counter[tuple] = collections.Counter()  # type: ignore[type-arg]
        self.rid = 0
        self.requests: list[Request] = []
        self.open_streams: list["WatchConn"] = []
        self.all_streams: list["WatchConn"] = []
        self.max_latency_used = 0.0
        self.closed_session_attempts: list[tuple[float, str, str]] = []
        self.arrive_hooks: list[Any] = []  # called when a (non-watch) request reaches the server, before it is applied

    # --- keyed pseudo-randomness (never Python's hash(), never the global `random`) ---
    def _u(self, *key: Any) -> float:
        return (core.stable_hash(self.latency_seed, *key) % (1 << 53)) / float(1 << 53)

    def latency(self, lo: float, hi: float, *key: Any) -> float:
        d = lo + (hi - lo) * self._u(*key)
        if d > self.max_latency_used:
            self.max_latency_used = d
        return d

    # --- fault rules ---
    def _match(self, rule: dict[str, Any], attrs: dict[str, Any]) -> bool:
        m = rule.get('match', {})
        for k, v in m.items():
            if k == 'from_t':
                if self.sim.now < v:
                    return False
            elif k == 'to_t':
                if self.sim.now > v:
                    return False
            elif k == 'actor_prefix':
                if not str(attrs.get('actor', '')).startswith(v):
                    return False
            elif attrs.get(k) != v:
                return False
        rule['_seen'] += 1
        nth = rule.get('nth')
        if nth is not None:
            if isinstance(nth, list):
                return rule['_seen'] in nth
            return rule['_seen'] == nth
        count = rule.get('count')
        if count is not None and rule['_hits'] >= count:
            return False
        return True

    def pick_fault(self, attrs: dict[str, Any], phase: str) -> Optional[dict[str, Any]]:
        # Every rule of this phase counts every request it matches (so that "nth" means the same
        # for all rules); the first one that fires is applied.
        chosen: Optional[dict[str, Any]] = None
        for rule in self.rules:
            if rule.get('phase', 'request') != phase:
                continue
            if self._match(rule, attrs) and chosen is None:
                chosen = rule
        if chosen is not None:
            chosen['_hits'] += 1
        return chosen

    # --- the request path ---
    def submit(self, session: FakeSession, loop: asyncio.AbstractEventLoop, fut: Any, method: str,
               url: str, payload: Any, headers: dict[str, str], timeout: Any) -> Request:
        sim = self.sim
        parsed = urllib.parse.urlparse(url)
        query = dict(urllib.parse.parse_qsl(parsed.query))
        self.rid += 1
        req = Request()
        req.rid = self.rid
        req.session, req.loop, req.fut = session, loop, fut
        req.method, req.url, req.path, req.query = method.upper(), url, parsed.path, query
        req.payload = copy.deepcopy(payload)
        req.headers, req.timeout = dict(headers), timeout
        req.t_sent = sim.now
        routed = self.cluster.route(parsed.path)
        ctype = headers.get('Content-Type', '')
        attrs = {
            'actor': session.actor, 'method': req.method, 'path': parsed.path,
            'watch': query.get('watch') == 'true',
            'kind': routed[0].plural if routed else None,
            'ns': routed[1] if routed else None,
            'name': routed[2] if routed else None,
            'sub': routed[3] if routed else None,
            'ctype': 'json' if 'json-patch' in ctype else 'merge' if 'merge-patch' in ctype else None,
            'token': session.token,
        }
        req.attrs = attrs
        occ_key = (session.actor.split('#')[0], req.method, parsed.path, attrs['watch'], attrs['ctype'])
        self.occurrences[occ_key] += 1
        occ = self.occurrences[occ_key]
        attrs['occ'] = occ
        self.requests.append(req)
        sim.log('req', req.rid, session.actor, req.method, parsed.path,
                'watch' if attrs['watch'] else '', query.get('resourceVersion'), attrs['ctype'])
        sim.count('net.requests')

        total = getattr(timeout, 'total', None)
        if total is not None and not attrs['watch']:
            sim.after(total, self._timeout, req)

        if session.dead:
            return req
        fault = self.pick_fault(attrs, 'request')
        req.fault = fault
        d1 = self.latency(self.lat_lo, self.lat_hi, *occ_key, occ, 1)
        if fault is not None:
            act = fault['action']
            sim.count('fault.' + act.get('kind', 'unknown'))
            sim.log('fault', req.rid, act.get('kind'), act.get('status'))
            d1 += act.get('delay_request', 0.0)
            if act.get('kind') == 'drop-request':
                sim.after(d1 + act.get('after', 0.0), self._fail, req,
                          act.get('exc', 'ClientConnectionError'))
                return req
        sim.after(d1, self._arrive, req, occ_key, occ)
        return req

    def _exc(self, name: str) -> BaseException:
        if name == 'TimeoutError':
            return asyncio.TimeoutError()
        if name == 'ServerDisconnectedError':
            return aiohttp.ServerDisconnectedError()
        if name == 'ClientPayloadError':
            return aiohttp.ClientPayloadError("sim: payload broken")
        if name == 'ClientOSError':
            return aiohttp.ClientOSError(104, "sim: connection reset by peer")
        return aiohttp.ClientConnectionError("sim: connection failed")

    def _fail(self, req: Request, excname: str) -> None:
        if req.done or req.fut.done() or req.session.dead:
            return
        req.done = True
        self.sim.log('rsp-fail', req.rid, excname)
        req.fut.set_exception(self._exc(excname))

    def _timeout(self, req: Request) -> None:
        if req.done or req.fut.done() or req.session.dead:
            return
        req.done = True
        self.sim.count('net.timeouts')
        self.sim.log('rsp-timeout', req.rid)
        req.fut.set_exception(asyncio.TimeoutError())

    def _arrive(self, req: Request, occ_key: tuple, occ: int) -> None:  # type: ignore[type-arg]
        sim = self.sim
        session = req.session
        if session.dead:
            # A request of a killed process that had not reached the server is lost with it,
            # unless the plan says that in-flight writes of the killed process still land.
            if not getattr(session, 'inflight_lands', False):
                return
        for hook in self.arrive_hooks:
            hook(req)
        fault = req.fault
        act = fault['action'] if fault is not None else {}
        kind = act.get('kind')
        d2 = self.latency(self.lat_lo, self.lat_hi, *occ_key, occ, 2) + act.get('delay_response', 0.0)

        if session.revoked or kind == 'status' and not act.get('apply', False):
            status = 401 if session.revoked else int(act['status'])
            headers = dict(act.get('headers', {})) if not session.revoked else {}
            payload = act.get('payload')
            if payload is None:
                details = {'retryAfterSeconds': act['retry_after_seconds']} \
                    if 'retry_after_seconds' in act else {}
                payload = cl.status_payload(status, 'Sim', f'injected {status}', details)
            text = act.get('text')
            sim.after(d2, self._respond, req, status, payload, headers, text)
            return

        if req.attrs['watch'] and req.method == 'GET':
            self._open_watch(req, d2)
            return

        self.cluster.current_actor = session.actor  # type: ignore[attr-defined]
        self.cluster.current_ctx = {'rid': req.rid, 'intended_uid': req.attrs.get('intended_uid')}  # type: ignore[attr-defined]
        try:
            status, payload = self.cluster.handle(req.method, req.url, req.payload, req.headers,
                                                  actor=session.actor)
        finally:
            self.cluster.current_actor = None  # type: ignore[attr-defined]
            self.cluster.current_ctx = None  # type: ignore[attr-defined]
        req.applied = True
        if session.dead:
            return
        if kind == 'drop-response':
            sim.after(d2 + act.get('after', 0.0), self._fail, req, act.get('exc', 'ClientConnectionError'))
            return
        if kind == 'status' and act.get('apply', False):
            status = int(act['status'])
            payload = cl.status_payload(status, 'Sim', f'injected {status} after applying')
        sim.after(d2, self._respond, req, status, payload, {}, None)

    def _respond(self, req: Request, status: int, payload: Any, headers: dict[str, str],
                 text: Optional[str]) -> None:
        if req.done or req.fut.done() or req.session.dead:
            return
        req.done = True
        rsp = FakeResponse(status=status, payload=payload, headers=headers, method=req.method,
                           url=req.url, text=text)
        req.response = rsp
        rv = None
        if isinstance(payload, dict):
            rv = payload.get('metadata', {}).get('resourceVersion') if isinstance(payload.get('metadata'), dict) else None
        self.sim.log('rsp', req.rid, status, rv)
        req.fut.set_result(rsp)

    # --- watch streams ---
    def _open_watch(self, req: Request, d2: float) -> None:
        routed = self.cluster.route(req.path)
        if routed is None or routed[2] is not None:
            self.sim.after(d2, self._respond, req, 404,
                           cl.status_payload(404, 'NotFound', 'no such resource'), {}, None)
            return
        rdef, ns, _, _ = routed
        since = req.query.get('resourceVersion')
        bookmarks = req.query.get('allowWatchBookmarks') == 'true'
        w, backlog = self.cluster.open_watch(rdef, ns, since, actor=req.session.actor,
                                             bookmarks=bookmarks)
        conn = WatchConn(self, req, w, since)
        self.all_streams.append(conn)
        self.open_streams.append(conn)
        self.sim.log('watch-open', conn.cid, req.session.actor, rdef.plural, ns, since)
        self.sim.count('net.watches')
        conn.start(d2, backlog)


class WatchConn:
    """One open watch connection: server-side Watch + client-side FakeStream, in between the wire."""

    def __init__(self, net: Network, req: Request, watch: cl.Watch, since: Optional[str]) -> None:
        self.net = net
        self.sim = net.sim
        self.req = req
        self.watch = watch
        self.since = since
        self.cid = watch.wid
        self.actor = req.session.actor
        self.rdef = watch.rdef
        self.ns = watch.namespace
        self.rsp: Optional[FakeResponse] = None
        self.last_delivery = 0.0
        self.sent_events = 0
        self.delivered: list[tuple[float, Optional[str], Optional[str], Optional[str]]] = []
        self.closed = False
        self.t_open = self.sim.now
        self.t_close: Optional[float] = None
        self.close_reason: Optional[str] = None
        self.silenced = False
        self.pending: list[bytes] = []
        self.pending_eof = False
        self.outbox: collections.deque[tuple[str, Any]] = collections.deque()  # FIFO on the wire
        watch.sink = self._on_server_event

    def start(self, d2: float, backlog: list[dict[str, Any]]) -> None:
        sim = self.sim
        req = self.req
        self.last_delivery = sim.now + d2
        sim.after(d2, self._headers)
        for event in backlog:
            self._on_server_event(event)
        if not self.watch.open:
            # e.g. 410 Gone delivered as an ERROR event, then the server closes.
            self._schedule_eof('server-410')
        ts = req.query.get('timeoutSeconds')
        if ts is not None:
            try:
                sim.after(float(ts), self.server_close, 'server-timeout')
            except ValueError:
                pass
        total = getattr(req.timeout, 'total', None)
        if total is not None:
            sim.after(total, self.client_timeout)
        if self.net.cluster.bookmark_interval:
            sim.after(self.net.cluster.bookmark_interval, self._bookmark_tick)

    def _bookmark_tick(self) -> None:
        if self.closed or not self.watch.open:
            return
        self.net.cluster.bookmark(self.watch)
        self.sim.after(self.net.cluster.bookmark_interval or 60.0, self._bookmark_tick)

    def _headers(self) -> None:
        req = self.req
        if req.done or req.fut.done() or req.session.dead:
            self._close_server_side('client-gone')
            return
        req.done = True
        rsp = FakeResponse(status=200, payload=None, headers={}, method='GET', url=req.url, stream=True)
        rsp.on_close = self._on_client_close
        self.rsp = rsp
        req.response = rsp
        for data in self.pending:
            assert rsp._sim_stream is not None
            rsp._sim_stream.feed(data)
        self.pending.clear()
        if self.pending_eof:
            assert rsp._sim_stream is not None
            rsp._sim_stream.feed_eof()
        self.sim.log('watch-headers', self.cid)
        req.fut.set_result(rsp)

    def _on_client_close(self) -> None:
        if not self.closed:
            self.sim.log('watch-client-close', self.cid)
            self._close_server_side('client-close')

    def _close_server_side(self, reason: str) -> None:
        if not self.closed:
            self.closed = True
            self.t_close = self.sim.now
            self.close_reason = reason
            if self in self.net.open_streams:
                self.net.open_streams.remove(self)
            self.watch.sink = None
            self.net.cluster.close_watch(self.watch)

    # server -> wire
    def _on_server_event(self, event: Optional[dict[str, Any]]) -> None:
        if self.closed:
            return
        if event is None:
            self._schedule_eof('server-close')
            return
        if self.silenced:
            self.sim.count('fault.silence-dropped')
            return
        sim = self.sim
        self.sent_events += 1
        obj = event.get('object', {})
        meta = obj.get('metadata', {}) if isinstance(obj, dict) else {}
        attrs = {'actor': self.actor, 'kind': self.rdef.plural, 'name': meta.get('name'),
                 'etype': event.get('type'), 'watch_event': True,
                 'own_echo': getattr(self.net.cluster, 'current_actor', None) == self.actor,
                 'nth_event': self.sent_events}
        fault = self.net.pick_fault(attrs, 'event')
        delay = self.net.latency(self.net.watch_lat_lo, self.net.watch_lat_hi,
                                 self.actor.split('#')[0], 'ev', self.rdef.plural,
                                 meta.get('name'), meta.get('resourceVersion'))
        extra: list[dict[str, Any]] = []
        if fault is not None:
            act = fault['action']
            sim.count('fault.' + act.get('kind', 'unknown'))
            k = act.get('kind')
            if k == 'event-delay':
                delay += act.get('delay', 0.0)
            elif k in ('stream-eof', 'stream-reset', 'stream-timeout'):
                # The connection breaks *before* this event is delivered.
                self._schedule_break(k, act)
                return
            elif k == 'stream-error':
                extra.append({'type': 'ERROR', 'object': act.get('object') or cl.status_payload(
                    act.get('code', 500), 'InternalError', 'sim: injected watch error')})
            elif k == 'stream-silence':
                if not self.silenced:
                    self.silenced_at = sim.now
                    sim.log('watch-silenced', self.cid)
                self.silenced = True
                sim.count('fault.silence-dropped')
                return
        t = sim.now + delay
        if self.net.snap_prob and self.net._u('snap', self.cid, self.sent_events) < self.net.snap_prob:
            loop = self.req.loop if isinstance(self.req.loop, core.SimLoop) else None
            t = sim.snap(loop, t, self.net.snap_window)
        if t <= self.last_delivery:
            t = self.last_delivery  # FIFO per connection; equal instants keep their queue order
        self.last_delivery = t
        if fault is not None and fault['action'].get('kind') == 'event-delay':
            sim.log('fault-echo', self.cid, meta.get('name'), meta.get('resourceVersion'), sim.now, t)
        for ev in extra:
            self._enqueue(t, 'deliver', ev)
        self._enqueue(t, 'deliver', event)

    def _enqueue(self, t: float, what: str, arg: Any) -> None:
        # Whatever the tie order among simultaneous external events is, one connection is FIFO.
        self.outbox.append((what, arg))
        self.sim.at(t, self._pump)

    def _pump(self) -> None:
        if not self.outbox:
            return
        what, arg = self.outbox.popleft()
        if what == 'deliver':
            self._deliver(arg)
        elif what == 'eof':
            self._eof(arg)
        elif what == 'break':
            self._break(arg[0], arg[1])

    def _schedule_break(self, kind: str, act: dict[str, Any]) -> None:
        t = max(self.last_delivery, self.sim.now + act.get('after', 0.0))
        self.last_delivery = t
        self.watch.sink = None
        self.net.cluster.close_watch(self.watch)
        if kind == 'stream-eof':
            self._enqueue(t, 'eof', 'fault-eof')
        elif kind == 'stream-timeout':
            self._enqueue(t, 'break', ('TimeoutError', 'fault-timeout'))
        else:
            self._enqueue(t, 'break', (act.get('exc', 'ClientPayloadError'), 'fault-reset'))

    def _schedule_eof(self, reason: str) -> None:
        t = max(self.last_delivery, self.sim.now + self.net.latency(
            self.net.watch_lat_lo, self.net.watch_lat_hi, 'eof', self.cid))
        self.last_delivery = t
        self._enqueue(t, 'eof', reason)

    def server_close(self, reason: str) -> None:
        if not self.closed:
            self.watch.sink = None
            self.net.cluster.close_watch(self.watch)
            self._schedule_eof(reason)

    def client_timeout(self) -> None:
        if not self.closed:
            self._break('TimeoutError', 'client-timeout')

    # wire -> client
    def _encode(self, event: dict[str, Any]) -> bytes:
        return json.dumps(event, separators=(',', ':')).encode('utf-8') + b'\n'

    def _deliver(self, event: dict[str, Any]) -> None:
        if self.closed or self.req.session.dead:
            return
        obj = event.get('object', {})
        meta = obj.get('metadata', {}) if isinstance(obj, dict) else {}
        self.delivered.append((self.sim.now, event.get('type'), meta.get('uid'), meta.get('resourceVersion')))
        self.sim.log('watch-ev', self.cid, event.get('type'), meta.get('name'), meta.get('uid'),
                     meta.get('resourceVersion'))
        data = self._encode(event)
        pieces: list[bytes]
        if self.net.chunking == 'torn' and len(data) > 3:
            cut = 1 + int(self.net._u('cut', self.cid, len(self.delivered)) * (len(data) - 2))
            pieces = [data[:cut], data[cut:]]
            self.sim.count('fault.torn-chunk')
        else:
            pieces = [data]
        for piece in pieces:
            if self.rsp is None:
                self.pending.append(piece)
            else:
                assert self.rsp._sim_stream is not None
                self.rsp._sim_stream.feed(piece)

    def _eof(self, reason: str) -> None:
        if self.closed:
            return
        self.sim.log('watch-eof', self.cid, reason)
        self._close_server_side(reason)
        if self.rsp is not None and self.rsp._sim_stream is not None:
            self.rsp._sim_stream.feed_eof()
        elif not self.req.fut.done():
            # The server has accepted the watch, so its headers are on their way; the orderly end of the
            # body follows them (and whatever events were sent in between) in order.
            self.pending_eof = True

    def _break(self, excname: str, reason: str) -> None:
        if self.closed:
            return
        self.sim.log('watch-break', self.cid, reason)
        self._close_server_side(reason)
        exc = self.net._exc(excname)
        if self.rsp is not None and self.rsp._sim_stream is not None:
            if excname != 'TimeoutError' and self.net._u('partial', self.cid) < 0.5:
                # The last bytes and the reset arrive together: the reader is busy with the (incomplete)
                # data when the error lands, and meets it on its next read instead of inside its wait.
                self.sim.count('fault.reset-with-partial-data')
                self.rsp._sim_stream.feed(b'{"type": "MODIF')
            self.rsp._sim_stream.fail(exc)
        elif not self.req.fut.done():
            self.req.done = True
            self.req.fut.set_exception(exc)
