"""
Seeded search over plans: batch driver (forked workers), minimiser, replay, evidence.

A property module provides:

    ID, TITLE, LEVEL
    gen_plan(ch: Chooser, tier: str) -> plan                (pure function of the chooser)
    evaluate(plan) -> Outcome                               (runs the plan, applies the oracle)
    COMPONENTS, ASSUMPTIONS, RULE                           (for the evidence file)

`evaluate` must be deterministic: same plan => same digest and same violations.
"""
from __future__ import annotations

import collections
import copy
import faulthandler
import hashlib
import json
import os
import pickle
import random
import select
import signal
import sys
import time
import traceback
from typing import Any, Callable, Optional

from kopfsim import core

ROOT = os.path.dirname(os.path.dirname(os.path.abspath(__file__)))
OUT = os.environ.get('VERIF_OUT', ROOT)  # where evidence/ and replays/ are written


class Chooser:
    """Every generated choice goes through here; a Hypothesis backend could replace it."""

    def __init__(self, seed: int) -> None:
        self.rng = random.Random(seed)
        self.seed = seed

    def int(self, lo: int, hi: int) -> int:
        return self.rng.randint(lo, hi)

    def float(self, lo: float, hi: float) -> float:
        return round(self.rng.uniform(lo, hi), 6)

    def bool(self, p: float = 0.5) -> bool:
        return self.rng.random() < p

    def choice(self, seq: Any) -> Any:
        seq = list(seq)
        return seq[self.rng.randrange(len(seq))]

    def weighted(self, pairs: list[tuple[Any, float]]) -> Any:
        total = sum(w for _, w in pairs)
        x = self.rng.random() * total
        for v, w in pairs:
            x -= w
            if x <= 0:
                return v
        return pairs[-1][0]

    def sample(self, seq: Any, k: int) -> list[Any]:
        seq = list(seq)
        return self.rng.sample(seq, min(k, len(seq)))

    def subset(self, seq: Any, p: float = 0.5) -> list[Any]:
        return [x for x in seq if self.rng.random() < p]

    def shuffle(self, seq: list[Any]) -> list[Any]:
        seq = list(seq)
        self.rng.shuffle(seq)
        return seq


class Violation:
    def __init__(self, clause: str, sig: str, msg: str, facts: Optional[dict[str, Any]] = None) -> None:
        self.clause = clause    # which oracle clause fired, e.g. "C02/rerun-of-finished"
        self.sig = sig          # discriminating facts (stable under minimisation), for known findings
        self.msg = msg
        self.facts = facts or {}

    def key(self) -> str:
        return f'{self.clause}|{self.sig}'

    def as_dict(self) -> dict[str, Any]:
        return {'clause': self.clause, 'sig': self.sig, 'msg': self.msg, 'facts': self.facts}


class Outcome:
    def __init__(self) -> None:
        self.violations: list[Violation] = []
        self.digest = ''
        self.signature = ''          # abstract trace signature (for distinct counting)
        self.nontrivial = False      # at least one fault / coincidence / probe actually fired
        self.counters: dict[str, int] = {}
        self.probes: dict[str, int] = {}
        self.sim_seconds = 0.0
        self.steps = 0
        self.inconclusive: Optional[str] = None   # harness-level trouble (never a VIOLATION)
        self.summary: dict[str, Any] = {}

    def add(self, clause: str, sig: str, msg: str, **facts: Any) -> None:
        if sum(1 for v in self.violations if v.clause == clause and v.sig == sig) >= 2:
            return  # enough instances of this one for a run
        self.violations.append(Violation(clause, sig, msg, facts))


def run_seed(prop: Any, verif_seed: int, index: int) -> int:
    return core.stable_hash('kopfsim', prop.ID, verif_seed, index) % (1 << 62)


def plan_for(prop: Any, verif_seed: int, index: int, tier: str) -> dict[str, Any]:
    seed = run_seed(prop, verif_seed, index)
    plan = prop.gen_plan(Chooser(seed), tier)
    plan['seed'] = seed
    plan['property'] = prop.ID
    plan['index'] = index
    return plan


# --------------------------------------------------------------------------------------
# Workers
# --------------------------------------------------------------------------------------
def _worker(prop: Any, verif_seed: int, tier: str, start: int, stride: int, deadline: float,
            max_runs: int, wfd: int) -> None:
    out = os.fdopen(wfd, 'wb', buffering=0)
    faulthandler.enable()
    i = start
    n = 0
    try:
        while time.time() < deadline and n < max_runs:
            plan = plan_for(prop, verif_seed, i, tier)
            t0 = time.time()
            rec: dict[str, Any] = {'index': i, 'seed': plan['seed']}
            try:
                oc = prop.evaluate(plan)
                rec.update(digest=oc.digest, signature=oc.signature, nontrivial=oc.nontrivial,
                           counters=oc.counters, probes=oc.probes, sim_seconds=oc.sim_seconds,
                           steps=oc.steps, inconclusive=oc.inconclusive,
                           violations=[v.as_dict() for v in oc.violations],
                           summary=oc.summary, wall=time.time() - t0)
            except BaseException as e:  # harness error: report, never as a violation
                rec.update(harness_error=''.join(traceback.format_exception(e))[-3000:])
            data = pickle.dumps(rec)
            out.write(len(data).to_bytes(4, 'big') + data)
            i += stride
            n += 1
    finally:
        try:
            data = pickle.dumps({'eof': True, 'next': i})
            out.write(len(data).to_bytes(4, 'big') + data)
            out.close()
        except Exception:
            pass
    os._exit(0)


class _Slot:
    def __init__(self, k: int) -> None:
        self.k = k
        self.pid = 0
        self.rfd = -1
        self.buf = b''
        self.next_index = k
        self.started = 0.0
        self.last_msg = 0.0
        self.finished = False


def batch(prop: Any, *, verif_seed: int, tier: str, budget_s: float, procs: int,
          max_runs_per_worker: int = 150, max_total: Optional[int] = None,
          hang_timeout: float = 120.0) -> dict[str, Any]:
    """Runs plans index 0,1,2,... across `procs` forked workers until the wall budget ends."""
    t_begin = time.time()
    deadline = t_begin + budget_s
    slots = [_Slot(k) for k in range(procs)]
    results: list[dict[str, Any]] = []
    harness_errors: list[str] = []
    hung: list[int] = []

    def spawn(slot: _Slot) -> None:
        r, w = os.pipe()
        pid = os.fork()
        if pid == 0:
            os.close(r)
            for s in slots:
                if s.rfd >= 0:
                    try:
                        os.close(s.rfd)
                    except OSError:
                        pass
            try:
                _worker(prop, verif_seed, tier, slot.next_index, procs, deadline,
                        max_runs_per_worker, w)
            finally:
                os._exit(1)
        os.close(w)
        slot.pid, slot.rfd, slot.buf = pid, r, b''
        slot.started = slot.last_msg = time.time()
        slot.finished = False

    for slot in slots:
        spawn(slot)

    live = set(range(procs))
    while live:
        rlist = [slots[k].rfd for k in live]
        ready, _, _ = select.select(rlist, [], [], 1.0)
        now = time.time()
        for k in list(live):
            slot = slots[k]
            if slot.rfd in ready:
                try:
                    chunk = os.read(slot.rfd, 1 << 16)
                except OSError:
                    chunk = b''
                if chunk:
                    slot.buf += chunk
                    slot.last_msg = now
                    while len(slot.buf) >= 4:
                        n = int.from_bytes(slot.buf[:4], 'big')
                        if len(slot.buf) < 4 + n:
                            break
                        rec = pickle.loads(slot.buf[4:4 + n])
                        slot.buf = slot.buf[4 + n:]
                        if rec.get('eof'):
                            slot.next_index = rec['next']
                            slot.finished = True
                        elif 'harness_error' in rec:
                            harness_errors.append(f"index {rec['index']}: {rec['harness_error']}")
                        else:
                            results.append(rec)
                else:
                    # EOF on the pipe: worker is gone
                    os.close(slot.rfd)
                    slot.rfd = -1
                    try:
                        _, status = os.waitpid(slot.pid, 0)
                    except ChildProcessError:
                        status = 0
                    if not slot.finished:
                        harness_errors.append(f"worker {k} died with status {status}")
                        live.discard(k)
                    elif time.time() < deadline and (max_total is None or len(results) < max_total):
                        spawn(slot)
                    else:
                        live.discard(k)
            elif now - slot.last_msg > hang_timeout:
                # A hang that even the in-process CPU watchdog did not break: kill, report as harness error.
                try:
                    os.kill(slot.pid, signal.SIGKILL)
                except ProcessLookupError:
                    pass
                hung.append(k)
                harness_errors.append(f"worker {k} hung (no progress for {hang_timeout}s); killed")
                slot.finished = False
                slot.last_msg = now
        if max_total is not None and len(results) >= max_total:
            deadline = min(deadline, time.time())
    wall = time.time() - t_begin
    results.sort(key=lambda r: r['index'])
    return {'results': results, 'harness_errors': harness_errors, 'wall': wall}


# --------------------------------------------------------------------------------------
# Minimisation (delta debugging on the materialised plan)
# --------------------------------------------------------------------------------------
def _get_lists(plan: dict[str, Any], paths: list[str]) -> list[tuple[Any, Any]]:
    """Resolve list locations: 'actions', 'net.rules', 'operators.*.handlers' -> (container, key) pairs."""
    found: list[tuple[Any, Any]] = []

    def walk(node: Any, parts: list[str]) -> None:
        if not parts:
            return
        head, rest = parts[0], parts[1:]
        if head == '*':
            if isinstance(node, list):
                for item in node:
                    walk(item, rest)
            return
        if not isinstance(node, dict) or head not in node:
            return
        if not rest:
            if isinstance(node[head], list):
                found.append((node, head))
            return
        walk(node[head], rest)

    for p in paths:
        walk(plan, p.split('.'))
    return found


def minimise(prop: Any, plan: dict[str, Any], target: Violation, *, wall_budget: float = 60.0,
             log: Callable[[str], None] = lambda s: None) -> dict[str, Any]:
    """Greedy one-at-a-time removal until a fixpoint; keeps a candidate iff the same clause fires."""
    t_end = time.time() + wall_budget
    paths = getattr(prop, 'REDUCIBLE', ['actions', 'net.rules', 'triggers', 'objects',
                                        'operators.*.handlers'])
    best = copy.deepcopy(plan)
    tries = 0

    def still_fails(candidate: dict[str, Any]) -> bool:
        nonlocal tries
        tries += 1
        try:
            oc = prop.evaluate(copy.deepcopy(candidate))
        except BaseException:
            return False
        return any(v.clause == target.clause and v.sig == target.sig for v in oc.violations)

    changed = True
    while changed and time.time() < t_end:
        changed = False
        for container, key in _get_lists(best, paths):
            lst = container[key]
            # try dropping big chunks first, then single items
            n = len(lst)
            chunk = max(1, n // 2)
            while chunk >= 1 and time.time() < t_end:
                i = 0
                while i < len(lst) and time.time() < t_end:
                    removed = lst[i:i + chunk]
                    if not removed:
                        break
                    del lst[i:i + chunk]
                    if still_fails(best):
                        changed = True
                    else:
                        lst[i:i] = removed
                        i += chunk
                chunk //= 2
        for simp in getattr(prop, 'SIMPLIFIERS', []):
            if time.time() >= t_end:
                break
            cand = copy.deepcopy(best)
            if simp(cand) and cand != best and still_fails(cand):
                best = cand
                changed = True
    log(f"minimised with {tries} re-runs")
    best['_minimised'] = {'tries': tries, 'from_index': plan.get('index')}
    return best


# --------------------------------------------------------------------------------------
# Known findings
# --------------------------------------------------------------------------------------
def load_known_findings() -> list[dict[str, Any]]:
    path = os.path.join(ROOT, 'known_findings.json')
    if not os.path.exists(path):
        return []
    with open(path) as f:
        return list(json.load(f).get('findings', []))


def match_known(prop_id: str, v: dict[str, Any], known: list[dict[str, Any]]) -> Optional[dict[str, Any]]:
    for k in known:
        if k.get('status') != 'open' or k.get('property') != prop_id:
            continue
        kc = k.get('clause')
        if not (kc == v['clause'] or (isinstance(kc, list) and v['clause'] in kc)):
            continue
        sig = k.get('sig')
        if sig is None or sig == v['sig'] or (isinstance(sig, list) and v['sig'] in sig) \
                or (k.get('sig_prefix') and v['sig'].startswith(k['sig_prefix'])):
            return k
    return None


# --------------------------------------------------------------------------------------
# The check entry point
# --------------------------------------------------------------------------------------
def write_replay(prop: Any, plan: dict[str, Any], v: dict[str, Any], digest: str,
                 original: Optional[dict[str, Any]] = None) -> str:
    d = os.path.join(OUT, 'replays')
    os.makedirs(d, exist_ok=True)
    h = hashlib.sha256(json.dumps([v['clause'], v['sig'], plan.get('seed')], sort_keys=True).encode()).hexdigest()[:10]
    path = os.path.join(d, f'{prop.ID}-{h}.json')
    doc = {'property': prop.ID, 'clause': v['clause'], 'sig': v['sig'], 'msg': v['msg'],
           'facts': v.get('facts'), 'digest': digest, 'seed': plan.get('seed'),
           'pythonhashseed': os.environ.get('PYTHONHASHSEED'), 'plan': plan}
    if original is not None:
        doc['unminimised_plan'] = original
    with open(path, 'w') as f:
        json.dump(doc, f, indent=1, sort_keys=True, default=str)
    return path


def replay(prop: Any, path: str) -> int:
    with open(path) as f:
        doc = json.load(f)
    plan = doc['plan']
    oc = prop.evaluate(copy.deepcopy(plan))
    hit = [v for v in oc.violations if v.clause == doc['clause'] and v.sig == doc['sig']]
    print(f"replay {path}: digest={oc.digest} recorded={doc.get('digest')} "
          f"violations={[v.key() for v in oc.violations]}")
    if hit:
        same = oc.digest == doc.get('digest')
        print(f"REPRODUCED clause={doc['clause']} sig={doc['sig']} digest_match={same}")
        print(f"  {hit[0].msg}")
        print(f"VIOLATION property={prop.ID} replay={path}")
        return 1
    print("NOT REPRODUCED (the recorded violation does not occur on this tree)")
    return 0


def run_check(prop: Any, *, tier: str, verif_seed: int, budget_s: float, procs: int,
              max_total: Optional[int] = None, minimise_budget: float = 45.0) -> int:
    t0 = time.time()
    print(f"[{prop.ID}] tier={tier} VERIF_SEED={verif_seed} budget={budget_s:.0f}s procs={procs} "
          f"PYTHONHASHSEED={os.environ.get('PYTHONHASHSEED')} repo={os.environ.get('VERIF_REPO', '/repo')}",
          flush=True)
    res = batch(prop, verif_seed=verif_seed, tier=tier, budget_s=budget_s, procs=procs,
                max_total=max_total)
    results = res['results']
    known = load_known_findings()

    counters: collections.Counter[str] = collections.Counter()
    probes: collections.Counter[str] = collections.Counter()
    sigs_nontrivial: set[str] = set()
    sigs_all: set[str] = set()
    sim_seconds = 0.0
    steps = 0
    inconclusive = 0
    by_key: dict[str, list[dict[str, Any]]] = {}
    for r in results:
        counters.update(r.get('counters') or {})
        probes.update(r.get('probes') or {})
        sim_seconds += r.get('sim_seconds', 0.0)
        steps += r.get('steps', 0)
        sigs_all.add(r.get('signature', ''))
        if r.get('nontrivial'):
            sigs_nontrivial.add(r.get('signature', ''))
        if r.get('inconclusive'):
            inconclusive += 1
        for v in r.get('violations') or []:
            by_key.setdefault(f"{v['clause']}|{v['sig']}", []).append(dict(v, index=r['index'], seed=r['seed'], digest=r['digest']))

    exit_code = 0
    reported: list[dict[str, Any]] = []
    known_hits: dict[str, int] = {}
    for key, vs in sorted(by_key.items()):
        v = vs[0]
        k = match_known(prop.ID, v, known)
        if k is not None:
            known_hits[k.get('id', key)] = known_hits.get(k.get('id', key), 0) + len(vs)
            continue
        # A new violation: minimise, write the replay file, report.
        if len(reported) < 5:
            plan = plan_for(prop, verif_seed, v['index'], tier)
            target = Violation(v['clause'], v['sig'], v['msg'])
            try:
                small = minimise(prop, plan, target, wall_budget=minimise_budget)
                oc = prop.evaluate(copy.deepcopy(small))
                digest = oc.digest
                hit = [x for x in oc.violations if x.clause == v['clause'] and x.sig == v['sig']]
                msg = hit[0].msg if hit else v['msg']
                path = write_replay(prop, small, dict(v, msg=msg), digest, original=plan)
            except BaseException as e:
                path = write_replay(prop, plan, v, v['digest'])
                print(f"  (minimisation failed: {e!r}; un-minimised plan kept)")
            print(f"VIOLATION property={prop.ID} replay={path}")
            print(f"  clause={v['clause']} sig={v['sig']} runs={len(vs)} first_index={v['index']}")
            print(f"  {v['msg']}")
            reported.append(dict(v, replay=path, runs=len(vs)))
        exit_code = 1
    for kid, n in sorted(known_hits.items()):
        k = next((x for x in known if x.get('id') == kid), {})
        print(f"KNOWN-FINDING: property={prop.ID} {kid}: {k.get('what', '')} (seen in {n} runs)")

    if res['harness_errors']:
        print(f"HARNESS ERRORS ({len(res['harness_errors'])}):")
        for e in res['harness_errors'][:5]:
            print('  ' + e.replace('\n', '\n  '))
        if exit_code == 0:
            exit_code = 2

    wall = time.time() - t0
    n = len(results)
    samples = []
    for r in results[:3]:
        samples.append({'index': r['index'], 'seed': r['seed'], 'digest': r['digest'],
                        'summary': r.get('summary')})
    evidence = {
        'property_id': prop.ID,
        'tier': tier,
        'seed': verif_seed,
        'level': prop.LEVEL,
        'wall_s': round(wall, 2),
        'violations': len(by_key) - sum(1 for key, vs in by_key.items() if match_known(prop.ID, vs[0], known)),
        'coverage': {
            'evaluations': n,
            'distinct_nontrivial': len(sigs_nontrivial),
            'distinct_signatures_all': len(sigs_all),
            'rule': prop.RULE,
            'samples': samples,
            'runs_per_hour': round(n / max(res['wall'], 1e-9) * 3600),
            'seeds': {'verif_seed': verif_seed, 'indices': [0, max([r['index'] for r in results], default=0)],
                      'derivation': 'per-run seed = blake2b(kopfsim, property, VERIF_SEED, index)'},
            'simulated_seconds': round(sim_seconds, 1),
            'scheduler_steps': steps,
            'faults_fired': {k: v for k, v in sorted(counters.items()) if k.startswith(('fault.', 'coincidence.', 'tie.'))},
            'workload_counters': {k: v for k, v in sorted(counters.items()) if not k.startswith(('fault.', 'coincidence.', 'tie.'))},
            'probes': dict(sorted(probes.items())),
            'inconclusive_runs': inconclusive,
            'harness_errors': len(res['harness_errors']),
            'known_findings_seen': known_hits,
            'components': prop.COMPONENTS,
            'procs': procs,
        },
        'assumptions': prop.ASSUMPTIONS,
    }
    if getattr(prop, 'EXHAUSTIVE', False):
        evidence['coverage']['exhaustive'] = True
    os.makedirs(os.path.join(OUT, 'evidence'), exist_ok=True)
    with open(os.path.join(OUT, 'evidence', f'{prop.ID}.json'), 'w') as f:
        json.dump(evidence, f, indent=1, sort_keys=True, default=str)
    zero_probes = [p for p in getattr(prop, 'PROBES', []) if probes.get(p, 0) == 0]
    print(f"[{prop.ID}] runs={n} distinct_nontrivial={len(sigs_nontrivial)} sim_s={sim_seconds:.0f} "
          f"runs/h={evidence['coverage']['runs_per_hour']} wall={wall:.1f}s "
          f"violations={evidence['violations']} known={sum(known_hits.values())} "
          f"inconclusive={inconclusive}" + (f" ZERO-PROBES={zero_probes}" if zero_probes else ''), flush=True)
    if n == 0 and exit_code == 0:
        print("no runs completed: harness error")
        exit_code = 2
    return exit_code
