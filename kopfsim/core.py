"""
The simulator core: one global virtual clock, a queue of external events,
one SimLoop (a real asyncio.BaseEventLoop with a fake selector) per simulated
operator process, and the master scheduler that decides who runs next.

Nothing here knows about kopf except `install_seams()`, which replaces the
module-level names through which kopf reaches the wall clock, OS signals and
address-ordered sets (see DESIGN.md section 2.1).
"""
from __future__ import annotations

import asyncio
import collections
import datetime as _real_datetime
import gc
import hashlib
import heapq
import json
import random
import signal as _real_signal
import sys
import threading
import types
from asyncio import events as _aio_events
from typing import Any, Callable, Optional

EPOCH = _real_datetime.datetime(2030, 1, 1, 0, 0, 0, tzinfo=_real_datetime.timezone.utc)

# Which object the code currently running in this task works for (set by scripted handlers).
import contextvars
current_uid: contextvars.ContextVar[Optional[str]] = contextvars.ContextVar('sim_current_uid', default=None)

# The simulation in progress in this process (one at a time).
CURRENT: Optional["Sim"] = None


class SimStall(KeyboardInterrupt):
    """A single callback did not return within the CPU budget (a stalled loop)."""


class StepCapReached(Exception):
    """The master scheduler hit its step cap before reaching the virtual-time horizon."""


# --------------------------------------------------------------------------------------
# Tasks with deterministic hashes (sets of tasks iterate in creation order-ish, not by address).
# --------------------------------------------------------------------------------------
_task_seq = 0


class SimTask(asyncio.Task):  # type: ignore[type-arg]
    def __new__(cls, *args: Any, **kwargs: Any) -> "SimTask":
        global _task_seq
        self = super().__new__(cls)
        _task_seq += 1
        self._sim_hash = _task_seq  # before __init__: the hash is used while registering.
        return self

    def __hash__(self) -> int:
        return self._sim_hash  # type: ignore[attr-defined]

    def __eq__(self, other: object) -> bool:
        return self is other


def _task_factory(loop: asyncio.AbstractEventLoop, coro: Any, **kwargs: Any) -> SimTask:
    return SimTask(coro, loop=loop, **kwargs)


class _NullSelector:
    def select(self, timeout: Optional[float] = None) -> list:  # type: ignore[type-arg]
        return []

    def close(self) -> None:
        pass


class SimLoop(asyncio.BaseEventLoop):
    """
    A real asyncio loop (real ready-queue, real timer heap, real `_run_once`)
    whose clock and I/O belong to the simulator. It is never `run_forever()`:
    the master scheduler calls `step()` for one iteration at a time.
    """

    def __init__(self, sim: "Sim", name: str, skew: float = 0.0) -> None:
        super().__init__()
        self.sim = sim
        self.name = name
        self.skew = skew  # wall-clock offset of this "process" (seconds)
        self._selector = _NullSelector()
        self._clock_resolution = 1e-9
        self.alive = True
        self.stalled_until = 0.0
        self.iterations = 0
        self.set_task_factory(_task_factory)  # type: ignore[arg-type]
        self.set_exception_handler(self._on_loop_exception)

    # --- the seams ---
    def time(self) -> float:
        return self.sim.now

    def _process_events(self, event_list: Any) -> None:
        pass

    def _write_to_self(self) -> None:
        pass

    def add_signal_handler(self, sig: Any, callback: Any, *args: Any) -> None:
        raise NotImplementedError

    def remove_signal_handler(self, sig: Any) -> bool:
        return False

    def _on_loop_exception(self, loop: Any, context: dict) -> None:  # type: ignore[type-arg]
        msg = context.get('message', '')
        exc = context.get('exception')
        self.sim.diag.append((self.sim.now, self.name, msg, repr(exc) if exc is not None else None))

    # --- scheduling interface for the master ---
    def next_time(self) -> Optional[float]:
        if self._ready:
            return self.sim.now
        sched = self._scheduled
        while sched and sched[0]._cancelled:
            self._timer_cancelled_count -= 1
            handle = heapq.heappop(sched)
            handle._scheduled = False
        if sched:
            when = sched[0]._when
            return when if when > self.sim.now else self.sim.now
        return None

    def step(self) -> None:
        old_hooks = sys.get_asyncgen_hooks()
        self._thread_id = threading.get_ident()
        sys.set_asyncgen_hooks(firstiter=self._asyncgen_firstiter_hook,
                               finalizer=self._asyncgen_finalizer_hook)
        _aio_events._set_running_loop(self)
        try:
            self._run_once()
        finally:
            _aio_events._set_running_loop(None)
            self._thread_id = None
            sys.set_asyncgen_hooks(*old_hooks)
        self.iterations += 1

    def pending_timers(self) -> list[float]:
        return sorted(h._when for h in self._scheduled if not h._cancelled)


class Sim:
    """
    The master: global clock, external-event queue, loops, trace.

    Time moves only here: to the next due thing exactly, plus `tick` per executed
    step (CPU time of one loop iteration / one external event).
    """

    def __init__(self, *, seed: int = 0, tick: float = 1e-6, tie_random: bool = False,
                 tie_ext_first: bool = True) -> None:
        self.now = 0.0
        self.tick = tick
        self.seed = seed
        self._q: list[tuple[float, float, int, Callable[..., None], tuple]] = []  # type: ignore[type-arg]
        self._qseq = 0
        self.loops: list[SimLoop] = []
        self.trace: list[tuple] = []  # type: ignore[type-arg]
        self.seq = 0
        self.steps = 0
        self.ext_events = 0
        self.tie_random = tie_random
        self.tie_ext_first = tie_ext_first
        self.rng_tie = random.Random((seed << 8) ^ 0x71e)
        self.counters: collections.Counter[str] = collections.Counter()
        self.diag: list[tuple] = []  # type: ignore[type-arg]
        self.stopped = False
        self.kills: list[tuple] = []  # type: ignore[type-arg]  # recorded pthread_kill calls

    # --- trace ---
    def log(self, kind: str, *data: Any) -> int:
        self.seq += 1
        self.trace.append((self.seq, self.now, kind) + data)
        return self.seq

    def count(self, name: str, n: int = 1) -> None:
        self.counters[name] += n

    def digest(self) -> str:
        h = hashlib.sha256()
        for entry in self.trace:
            h.update(repr(entry).encode('utf-8', 'backslashreplace'))
            h.update(b'\n')
        return h.hexdigest()[:20]

    # --- external events ---
    def at(self, t: float, fn: Callable[..., None], *args: Any) -> None:
        self._qseq += 1
        tkey = self.rng_tie.random() if self.tie_random else 0.0
        heapq.heappush(self._q, (t if t > self.now else self.now, tkey, self._qseq, fn, args))

    def after(self, d: float, fn: Callable[..., None], *args: Any) -> None:
        self.at(self.now + (d if d > 0 else 0.0), fn, *args)

    # --- loops ---
    def new_loop(self, name: str, skew: float = 0.0) -> SimLoop:
        loop = SimLoop(self, name, skew=skew)
        self.loops.append(loop)
        return loop

    def kill_loop(self, loop: SimLoop) -> None:
        loop.alive = False

    def stall_loop(self, loop: SimLoop, duration: float) -> None:
        loop.stalled_until = max(loop.stalled_until, self.now + duration)
        self.count('fault.stall')

    def snap(self, loop: Optional[SimLoop], t: float, window: float) -> float:
        """Move `t` onto the earliest timer deadline of `loop` within [t, t+window], if any."""
        if loop is None or not loop.alive:
            return t
        best: Optional[float] = None
        for h in loop._scheduled:
            if not h._cancelled and t <= h._when <= t + window:
                if best is None or h._when < best:
                    best = h._when
        if best is not None:
            self.count('coincidence.snap')
            return best
        return t

    # --- the master scheduler ---
    def run(self, until: float, max_steps: int = 2_000_000) -> None:
        steps = 0
        while not self.stopped:
            now = self.now
            best_t: Optional[float] = None
            best: list[Any] = []
            if self._q:
                qt = self._q[0][0]
                best_t = qt if qt > now else now
                best = [None]
            for loop in self.loops:
                if not loop.alive:
                    continue
                lt = loop.next_time()
                if lt is None:
                    continue
                if lt < loop.stalled_until:
                    lt = loop.stalled_until
                if best_t is None or lt < best_t:
                    best_t = lt
                    best = [loop]
                elif lt == best_t:
                    best.append(loop)
            if best_t is None or best_t > until:
                break
            if len(best) > 1:
                if self.tie_random:
                    self.counters['tie.random'] += 1
                    pick = best[self.rng_tie.randrange(len(best))]
                elif self.tie_ext_first:
                    pick = best[0]
                else:
                    pick = best[-1]
            else:
                pick = best[0]
            self.now = best_t
            if pick is None:
                _, _, _, fn, args = heapq.heappop(self._q)
                self.ext_events += 1
                fn(*args)
            else:
                pick.step()
            self.now += self.tick
            steps += 1
            if steps >= max_steps:
                self.steps += steps
                raise StepCapReached(f"step cap {max_steps} reached at t={self.now:.6f}")
        self.steps += steps
        if self.now < until and not self.stopped:
            self.now = until

    def idle(self) -> bool:
        """No loop has anything ready and no external event is queued (timers may be pending)."""
        if self._q:
            return False
        return not any(loop.alive and loop._ready for loop in self.loops)


# --------------------------------------------------------------------------------------
# Seams into kopf: wall clock, signals, address-ordered sets of coroutines.
# --------------------------------------------------------------------------------------
class _SimDateTime(_real_datetime.datetime):
    @classmethod
    def now(cls, tz: Any = None) -> Any:  # type: ignore[override]
        sim = CURRENT
        if sim is None:
            return _real_datetime.datetime.now(tz)
        skew = 0.0
        loop = _aio_events._get_running_loop()
        if isinstance(loop, SimLoop):
            skew = loop.skew
        t = EPOCH + _real_datetime.timedelta(seconds=sim.now + skew)
        if tz is None:
            return t.replace(tzinfo=None)
        return t.astimezone(tz)

    @classmethod
    def utcnow(cls) -> Any:  # type: ignore[override]
        return cls.now(_real_datetime.timezone.utc).replace(tzinfo=None)


def _make_proxy(name: str, real: types.ModuleType, **overrides: Any) -> types.ModuleType:
    proxy = types.ModuleType(name)
    proxy.__dict__.update({k: v for k, v in real.__dict__.items() if not k.startswith('__')})
    proxy.__dict__.update(overrides)
    return proxy


_datetime_proxy = _make_proxy('datetime', _real_datetime, datetime=_SimDateTime)


def wall_now() -> _real_datetime.datetime:
    """Virtual wall-clock (no skew), for the cluster's timestamps."""
    sim = CURRENT
    assert sim is not None
    return EPOCH + _real_datetime.timedelta(seconds=sim.now)


def iso(t: _real_datetime.datetime) -> str:
    return t.strftime('%Y-%m-%dT%H:%M:%SZ')


def _recorded_pthread_kill(thread_id: int, signum: int) -> None:
    sim = CURRENT
    if sim is not None:
        sim.kills.append((sim.now, int(signum)))
        sim.log('ultimate-kill', int(signum))


_signal_proxy = _make_proxy('signal', _real_signal, pthread_kill=_recorded_pthread_kill)


def _coro_sort_key(coro: Any) -> tuple:  # type: ignore[type-arg]
    frame = getattr(coro, 'cr_frame', None)
    url = ''
    if frame is not None:
        url = str(frame.f_locals.get('url', ''))
    return (getattr(coro, '__qualname__', ''), url)


def _ordered_as_completed(fs: Any, *, timeout: Optional[float] = None) -> Any:
    items = list(fs)
    if all(asyncio.iscoroutine(f) for f in items):
        items.sort(key=_coro_sort_key)
        items = [asyncio.ensure_future(f) for f in items]  # tasks, created in a stable order
    return asyncio.as_completed(items, timeout=timeout)


_asyncio_proxy = _make_proxy('asyncio', asyncio, as_completed=_ordered_as_completed)

_seams_installed_for: Optional[str] = None


def install_seams() -> None:
    """Idempotent; must run after kopf is imported."""
    global _seams_installed_for
    import kopf  # noqa: F401
    if _seams_installed_for == kopf.__file__:
        return
    for modname, mod in list(sys.modules.items()):
        if not (modname == 'kopf' or modname.startswith('kopf.')) or mod is None:
            continue
        if getattr(mod, 'datetime', None) is _real_datetime:
            setattr(mod, 'datetime', _datetime_proxy)
    from kopf._cogs.clients import scanning
    from kopf._core.reactor import running
    running.signal = _signal_proxy  # type: ignore[attr-defined]
    scanning.asyncio = _asyncio_proxy  # type: ignore[attr-defined]
    _seams_installed_for = kopf.__file__


# --------------------------------------------------------------------------------------
# CPU watchdog: a callback that never returns cannot be caught by step caps.
# --------------------------------------------------------------------------------------
def _on_vtalrm(signum: int, frame: Any) -> None:
    raise SimStall("a single simulation run exceeded its CPU budget (stalled callback?)")


def arm_watchdog(cpu_seconds: float) -> None:
    _real_signal.signal(_real_signal.SIGVTALRM, _on_vtalrm)
    _real_signal.setitimer(_real_signal.ITIMER_VIRTUAL, cpu_seconds)


def disarm_watchdog() -> None:
    _real_signal.setitimer(_real_signal.ITIMER_VIRTUAL, 0)


def begin_run(sim: Sim) -> None:
    global CURRENT, _task_seq
    CURRENT = sim
    _task_seq = 0
    random.seed(sim.seed)
    gc.disable()


def end_run() -> None:
    global CURRENT
    CURRENT = None
    gc.enable()


def stable_hash(*parts: Any) -> int:
    """A process-independent hash of simple values (never Python's salted hash())."""
    data = json.dumps(parts, sort_keys=True, default=str).encode()
    return int.from_bytes(hashlib.blake2b(data, digest_size=8).digest(), 'big')
