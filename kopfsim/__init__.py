"""
kopfsim -- a deterministic simulator for nolar/kopf.

One process, one global virtual clock, one event loop per simulated operator
process, one stateful fake Kubernetes API. See /verif/DESIGN.md.
"""
