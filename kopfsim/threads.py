"""
Simulated threads for synchronous (``def``) handlers.

Kopf runs synchronous handlers through ``loop.run_in_executor(settings.execution.executor, fn)``.
The executor is a settings seam, so the simulator supplies its own: every submitted function gets
a real thread, but the *choice of who runs* stays with the simulator -- real threads parked and
released one at a time (baton passing). A sim-thread runs only while the master scheduler's thread
is parked inside `SimExecutor._resume()`, and it gives the baton back at its next blocking call:

* ``simsleep(d)``            -- the scripted handler's "blocking call" of d virtual seconds;
* ``SimEvent.wait(timeout)`` -- what ``stopped.wait(timeout)`` of a sync daemon ends in
  (``kopf._cogs.aiokits.aioenums.threading`` is proxied so that the stoppers' ``threading.Event`` is
  this class); woken by ``set()`` or by the virtual timeout, whichever is due first;
* returning or raising.

Each resumption is an external event of the simulator at a virtual instant, so one plan is still one
exactly repeatable execution. Virtual time does not move while a sim-thread runs (its CPU time is the
tick of the event that resumed it).

Threads of a killed process are never resumed again (a dead process runs nothing); at teardown every
unfinished thread is unwound with `SimThreadAbort` so that no real thread outlives its run.
"""
from __future__ import annotations

import concurrent.futures
import logging
import threading
import types
from typing import Any, Callable, Optional

from kopfsim import core

logging.getLogger('concurrent.futures').setLevel(logging.CRITICAL)

_real_Event = threading.Event


class SimThreadAbort(BaseException):
    """Thrown into a parked sim-thread at teardown; never seen by oracles."""


class _SimThread:
    def __init__(self, ex: "SimExecutor", fn: Callable[[], Any], cf: "concurrent.futures.Future[Any]", n: int) -> None:
        self.ex = ex
        self.fn = fn
        self.cf = cf
        self.n = n
        self.go = threading.Semaphore(0)
        self.parked = threading.Semaphore(0)
        self.thread: Optional[threading.Thread] = None
        self.finished = False
        self.abort = False
        self.request: Optional[tuple] = None  # type: ignore[type-arg]
        self.wake_token = 0      # resumptions carry the token they were scheduled for; stale ones are dropped
        self.woken_by: Optional[str] = None

    def main(self) -> None:
        self.go.acquire()
        try:
            if self.abort:
                raise SimThreadAbort()
            _tls.current = self
            try:
                result = self.fn()
            except SimThreadAbort:
                raise
            except BaseException as e:
                self.finished = True
                self.cf.set_exception(e)
            else:
                self.finished = True
                self.cf.set_result(result)
        except SimThreadAbort:
            self.finished = True
            try:
                self.cf.set_exception(RuntimeError("sim-thread aborted at teardown"))
            except BaseException:
                pass
        finally:
            _tls.current = None
            self.parked.release()

    # called inside the sim-thread
    def block(self, request: tuple) -> Optional[str]:  # type: ignore[type-arg]
        self.request = request
        self.parked.release()
        self.go.acquire()
        if self.abort:
            raise SimThreadAbort()
        return self.woken_by


_tls = threading.local()


def current_thread() -> Optional[_SimThread]:
    return getattr(_tls, 'current', None)


def simsleep(d: float) -> None:
    th = current_thread()
    if th is None:
        raise RuntimeError("simsleep() outside of a simulated thread")
    th.block(('sleep', float(d)))


class SimEvent(_real_Event):
    """threading.Event whose wait() is virtual when called from a sim-thread."""

    def __init__(self) -> None:
        super().__init__()
        self._sim_waiters: list[_SimThread] = []
        self.sim_set_at: Optional[float] = None
        self.sim_on_set: list[Callable[[float], None]] = []  # observers (the harness's, never kopf's)

    def set(self) -> None:
        first = not self.is_set()
        super().set()
        sim = core.CURRENT
        if first and sim is not None:
            self.sim_set_at = sim.now
            for cb in self.sim_on_set:
                cb(sim.now)
        waiters, self._sim_waiters = self._sim_waiters, []
        for th in waiters:
            th.ex.wake(th, 'event')

    def wait(self, timeout: Optional[float] = None) -> bool:
        th = current_thread()
        if th is None:
            return super().wait(timeout)
        if self.is_set():
            return True
        self._sim_waiters.append(th)
        th.block(('event', self, timeout))
        if th in self._sim_waiters:
            self._sim_waiters.remove(th)
        return self.is_set()


_threading_proxy = types.ModuleType('threading')
_threading_proxy.__dict__.update({k: v for k, v in threading.__dict__.items() if not k.startswith('__')})
_threading_proxy.Event = SimEvent  # type: ignore[attr-defined]


def install_seam() -> None:
    from kopf._cogs.aiokits import aioenums
    if getattr(aioenums, 'threading', None) is not _threading_proxy:
        aioenums.threading = _threading_proxy  # type: ignore[attr-defined]


class SimExecutor(concurrent.futures.Executor):
    def __init__(self, sim: core.Sim, loop: core.SimLoop, start_latency: float = 0.0) -> None:
        self.sim = sim
        self.loop = loop
        self.start_latency = start_latency
        self.threads: list[_SimThread] = []
        self._max_workers = 1 << 30  # kopf's settings poke at this attribute

    # --- concurrent.futures.Executor ---
    def submit(self, fn: Callable[..., Any], /, *args: Any, **kwargs: Any) -> "concurrent.futures.Future[Any]":  # type: ignore[override]
        cf: "concurrent.futures.Future[Any]" = concurrent.futures.Future()
        th = _SimThread(self, (lambda: fn(*args, **kwargs)), cf, len(self.threads))
        self.threads.append(th)
        self.sim.count('threads.submitted')
        th.wake_token += 1
        self.sim.after(self.start_latency, self._resume, th, th.wake_token, 'start')
        return cf

    def shutdown(self, wait: bool = True, *, cancel_futures: bool = False) -> None:
        pass

    # --- scheduling ---
    def wake(self, th: _SimThread, why: str) -> None:
        """Make the parked thread runnable now (as an external event of this instant)."""
        if th.finished:
            return
        th.wake_token += 1
        self.sim.after(0.0, self._resume, th, th.wake_token, why)

    def _resume(self, th: _SimThread, token: int, why: str) -> None:
        if th.finished or token != th.wake_token or not self.loop.alive and why != 'abort':
            return
        if th.thread is None:
            th.thread = threading.Thread(target=th.main, name=f'simthread-{th.n}', daemon=True)
            th.thread.start()
        th.woken_by = why
        th.request = None
        th.go.release()
        th.parked.acquire()
        self.sim.count('threads.resumed')
        if th.finished:
            return
        req = th.request
        if req is None:
            return
        th.wake_token += 1
        if req[0] == 'sleep':
            self.sim.after(req[1], self._resume, th, th.wake_token, 'timeout')
        elif req[0] == 'event':
            if req[2] is not None:
                self.sim.after(req[2], self._resume, th, th.wake_token, 'timeout')

    def live(self) -> int:
        return sum(1 for th in self.threads if not th.finished)

    def abort_all(self) -> None:
        for th in self.threads:
            if th.finished:
                continue
            if th.thread is None:
                th.finished = True
                continue
            th.abort = True
            th.go.release()
            th.parked.acquire()
            th.thread.join(1.0)
        self.threads.clear()
