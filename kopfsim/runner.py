"""
Closed-loop runner: interprets a *plan* (a JSON-able dict) -- cluster setup, operator
processes with scripted handlers, workload actions, fault rules -- runs the real
`kopf.operator()` for each simulated process on its own SimLoop against one FakeCluster,
and records everything oracles need.

A run is a pure function of (plan, kopf's code, PYTHONHASHSEED).
"""
from __future__ import annotations

import asyncio
import collections
import contextvars
import copy
import gc
import logging
import warnings
from typing import Any, Callable, Optional

from kopfsim import threads, cluster as cl
from kopfsim import core, net

# Which object the code currently running in this task works for (set by scripted handlers;
# used to attribute writes to the object they were computed for).
current_uid = core.current_uid


class _CaptureHandler(logging.Handler):
    """Keeps kopf's WARNING+ log records of the run in memory (never prints, never formats eagerly)."""

    def __init__(self) -> None:
        super().__init__(level=logging.WARNING)
        self.run: Optional["Run"] = None

    def emit(self, record: logging.LogRecord) -> None:
        run = self.run
        if run is None:
            return
        try:
            msg = record.getMessage()
        except Exception:
            msg = str(record.msg)
        run.logs.append((run.sim.now, record.levelname, record.name, msg[:300]))


_capture = _CaptureHandler()
_logging_ready = False


def _setup_logging(debug: bool = False) -> None:
    global _logging_ready
    if _logging_ready:
        return
    root = logging.getLogger()
    for h in list(root.handlers):
        root.removeHandler(h)
    root.addHandler(_capture)
    root.setLevel(logging.WARNING)
    logging.getLogger('kopf').setLevel(logging.WARNING)
    logging.getLogger('asyncio').setLevel(logging.CRITICAL)
    logging.raiseExceptions = False
    warnings.simplefilter('ignore')
    _logging_ready = True


def resolve_field(obj: Any, path: str, default: Any = None) -> Any:
    cur = obj
    for part in path.split('.'):
        if isinstance(cur, dict) or hasattr(cur, 'get'):
            try:
                if part not in cur:
                    return default
                cur = cur[part]
            except Exception:
                return default
        else:
            return default
    return cur


def plain(obj: Any) -> Any:
    """Deep-copy kopf's live views (Body, Store, Index, diff tuples) into plain JSON-like data."""
    if obj is None or isinstance(obj, (str, int, float, bool)):
        return obj
    if isinstance(obj, collections.abc.Mapping):
        return {str(k) if not isinstance(k, (str, int, float, bool, type(None))) else k: plain(v)
                for k, v in obj.items()}
    if isinstance(obj, (list, tuple, set, frozenset)) or isinstance(obj, collections.abc.Collection):
        return [plain(v) for v in obj]
    return repr(obj)


class Call:
    """One invocation of a scripted user function."""
    __slots__ = ('op', 'inc', 'hid', 'hkind', 'uid', 'name', 'ns', 'kind', 'n', 'retry', 't0', 'seq0', 't1', 'seq1',
                 'outcome', 'reason', 'rv', 'etype', 'old', 'new', 'diff', 'body', 'started',
                 'stop_seen', 'cancelled', 'extra', 'param')

    def __init__(self) -> None:
        for k in self.__slots__:
            setattr(self, k, None)

    def as_dict(self) -> dict[str, Any]:
        return {k: getattr(self, k) for k in self.__slots__ if k not in ('body',)}


class Operator:
    """One incarnation of one operator process."""

    def __init__(self, run: "Run", spec: dict[str, Any], incarnation: int) -> None:
        self.run = run
        self.spec = spec
        self.opid: str = spec['id']
        self.incarnation = incarnation
        self.actor = f'{self.opid}#{incarnation}'
        self.loop: Optional[core.SimLoop] = None
        self.task: Optional[asyncio.Task[None]] = None
        self.stop_flag: Optional[asyncio.Event] = None
        self.ready_flag: Optional[asyncio.Event] = None
        self.sessions: list[net.FakeSession] = []
        self.logins = 0
        self.state = 'new'  # new -> running -> exited | killed
        self.exit: Optional[tuple[float, str, Optional[str]]] = None
        self.t_start: Optional[float] = None
        self.t_stop_requested: Optional[float] = None
        self.t_killed: Optional[float] = None
        self.settings: Any = None
        self.registry: Any = None
        self.memories: Any = None
        self.indexers: Any = None
        self.tearing_down = False
        self.leftovers_cancelled = False
        self.last_credentials: Any = None
        self.t_process_gone: Optional[float] = None
        self.executor: Optional[threads.SimExecutor] = None

    # ------------------------------------------------------------------
    def start(self) -> None:
        import kopf
        from kopf._core.intents import registries
        from kopf._core.reactor import inventory
        from kopf._core.engines import indexing
        run, spec = self.run, self.spec
        sim = run.sim
        skews = spec.get('skews') or []
        skew = float(skews[self.incarnation - 1]) if self.incarnation - 1 < len(skews) else float(spec.get('skew', 0.0))
        if skew:
            sim.count('fault.clock-skew')
        self.loop = sim.new_loop(self.actor, skew=skew)
        self.t_start = sim.now
        self.registry = registries.OperatorRegistry()
        self.settings = build_settings(spec.get('settings', {}))
        threads.install_seam()
        self.executor = threads.SimExecutor(sim, self.loop, start_latency=spec.get('thread_start_latency', 0.0))
        self.settings.execution.executor = self.executor
        self.memories = inventory.ResourceMemories()
        self.indexers = indexing.OperatorIndexers()
        self.stop_flag = asyncio.Event()
        actor_ = self.actor

        class _ReadyFlag(asyncio.Event):
            def set(self) -> None:
                if not self.is_set():
                    sim.log('op-ready', actor_)
                super().set()

        self.ready_flag = _ReadyFlag()
        register_handlers(self, spec.get('handlers', []))

        lifecycle = {
            None: None,
            'asap': kopf.lifecycles.asap,
            'one_by_one': kopf.lifecycles.one_by_one,
            'all_at_once': kopf.lifecycles.all_at_once,
            'randomized': kopf.lifecycles.randomized,
            'shuffled': kopf.lifecycles.shuffled,
        }[spec.get('lifecycle')]

        kwargs: dict[str, Any] = dict(
            lifecycle=lifecycle,
            registry=self.registry,
            settings=self.settings,
            memories=self.memories,
            indexers=self.indexers,
            identity=spec.get('identity', self.actor),
            stop_flag=self.stop_flag,
            ready_flag=self.ready_flag,
        )
        if spec.get('namespaces'):
            kwargs['namespaces'] = list(spec['namespaces'])
        else:
            kwargs['clusterwide'] = True
        if 'standalone' in spec:
            kwargs['standalone'] = spec['standalone']
        if 'priority' in spec:
            kwargs['priority'] = spec['priority']
        if 'peering_name' in spec:
            kwargs['peering_name'] = spec['peering_name']

        async def main() -> None:
            await kopf.operator(**kwargs)

        self.task = self.loop.create_task(main(), name=f'operator {self.actor}')
        self.task.add_done_callback(self._on_exit)
        self.state = 'running'
        sim.log('op-start', self.actor)

    def _on_exit(self, task: "asyncio.Task[None]") -> None:
        if self.state == 'killed' or self.tearing_down:
            return
        sim = self.run.sim
        if task.cancelled():
            self.exit = (sim.now, 'cancelled', None)
        elif task.exception() is not None:
            e = task.exception()
            self.exit = (sim.now, 'raised', f'{type(e).__name__}: {e}')
        else:
            self.exit = (sim.now, 'returned', None)
        self.state = 'exited'
        sim.log('op-exit', self.actor, self.exit[1], self.exit[2])
        # The process ends like asyncio.run() does: whatever tasks are left get cancelled and are
        # awaited; the process is gone when none remains (tasks refusing to die keep it hanging).
        assert self.loop is not None
        self.loop.call_soon(self._shutdown_leftovers)

    def _shutdown_leftovers(self) -> None:
        loop = self.loop
        assert loop is not None
        left = [t for t in asyncio.all_tasks(loop) if not t.done()]
        if not left:
            self.t_process_gone = self.run.sim.now
            self.run.sim.log('op-gone', self.actor)
            for s in self.sessions:
                s.dead = True
            loop.alive = False
            return
        if not self.leftovers_cancelled:
            self.leftovers_cancelled = True
            self.run.sim.log('op-leftovers', self.actor, len(left))
            for t in left:
                t.cancel()
        loop.call_later(0.01, self._shutdown_leftovers)

    def new_session(self) -> net.FakeSession:
        self.logins += 1
        s = net.FakeSession(self.run.net, self.actor, self.loop, token=f't{self.logins}')
        self.sessions.append(s)
        return s

    def stop(self) -> None:
        if self.state == 'running' and self.stop_flag is not None:
            self.t_stop_requested = self.run.sim.now
            self.run.sim.log('op-stop', self.actor)
            self.stop_flag.set()

    def cancel(self) -> None:
        if self.state == 'running' and self.task is not None:
            self.t_stop_requested = self.run.sim.now
            self.run.sim.log('op-cancel', self.actor)
            self.task.cancel()

    def kill(self, inflight_lands: bool = False) -> None:
        if self.state != 'running':
            return
        sim = self.run.sim
        self.state = 'killed'
        self.t_killed = sim.now
        for s in self.sessions:
            s.dead = True
            s.inflight_lands = inflight_lands  # type: ignore[attr-defined]
        assert self.loop is not None
        sim.kill_loop(self.loop)
        for conn in list(self.run.net.open_streams):
            if conn.actor == self.actor:
                conn._close_server_side('client-killed')
        sim.count('fault.kill')
        sim.log('op-kill', self.actor, inflight_lands)

    @property
    def alive(self) -> bool:
        return self.state == 'running'

    # ------------------------------------------------------------------
    def teardown(self) -> None:
        """Cancel & drain whatever is left in this process's loop. Never influences verdicts."""
        self.tearing_down = True
        loop = self.loop
        if loop is None or loop.is_closed():
            return
        for s in self.sessions:
            s.dead = True
        loop.alive = False
        if self.executor is not None:
            try:
                self.executor.abort_all()
            except BaseException:
                pass
        try:
            for _ in range(60):
                tasks = [t for t in asyncio.all_tasks(loop) if not t.done()]
                if not tasks and not loop._ready:
                    break
                for t in tasks:
                    t.cancel()
                loop.step()
            # Retrieve exceptions to keep the garbage collector quiet.
            for t in asyncio.all_tasks(loop):
                if t.done() and not t.cancelled():
                    t.exception()
        except BaseException:
            pass
        try:
            loop._ready.clear()
            loop._scheduled.clear()
            loop.close()
        except BaseException:
            pass


def build_settings(knobs: dict[str, Any]) -> Any:
    import kopf
    s = kopf.OperatorSettings()
    s.posting.enabled = False
    s.process.ultimate_exiting_timeout = knobs.get('ultimate_exiting_timeout', 600.0)
    s.networking.error_backoffs = knobs.get('error_backoffs', (1, 1, 2, 3, 5, 8, 13, 21))
    if 'request_timeout' in knobs:
        s.networking.request_timeout = knobs['request_timeout']
    if 'enforce_retry_after' in knobs:
        s.networking.enforce_retry_after = knobs['enforce_retry_after']
    for key in ('idle_timeout', 'exit_timeout', 'worker_limit', 'error_delays'):
        if key in knobs:
            setattr(s.queueing, key, knobs[key])
    for key in ('server_timeout', 'client_timeout', 'connect_timeout', 'reconnect_backoff',
                'inactivity_timeout'):
        if key in knobs:
            setattr(s.watching, key, knobs[key])
    for key in ('cancellation_polling', 'instant_exit_timeout', 'instant_exit_zero_time_cycles'):
        if key in knobs:
            setattr(s.background, key, knobs[key])
    if 'consistency_timeout' in knobs:
        s.persistence.consistency_timeout = knobs['consistency_timeout']
    if 'finalizer' in knobs:
        s.persistence.finalizer = knobs['finalizer']
    if 'default_backoff' in knobs:
        s.execution.default_backoff = knobs['default_backoff']
    if 'scanning_disabled' in knobs:
        s.scanning.disabled = knobs['scanning_disabled']
    for key in ('lifetime', 'mandatory', 'stealth'):
        if 'peering_' + key in knobs:
            setattr(s.peering, key, knobs['peering_' + key])
    storage = knobs.get('storage')
    if storage:
        prefix = storage.get('prefix', 'kopf.zalando.org')
        v1 = storage.get('v1', True)
        kind = storage.get('progress', 'smart')
        if kind == 'annotations':
            s.persistence.progress_storage = kopf.AnnotationsProgressStorage(prefix=prefix, v1=v1)
        elif kind == 'status':
            s.persistence.progress_storage = kopf.StatusProgressStorage(
                name=storage.get('name', 'kopf'))
        elif kind == 'smart':
            s.persistence.progress_storage = kopf.SmartProgressStorage(
                prefix=prefix, v1=v1, name=storage.get('name', 'kopf'))
        elif kind == 'multi':
            s.persistence.progress_storage = kopf.MultiProgressStorage([
                kopf.AnnotationsProgressStorage(prefix=prefix, v1=v1),
                kopf.StatusProgressStorage(name=storage.get('name', 'kopf')),
            ])
        dkind = storage.get('diffbase', 'annotations')
        if dkind == 'annotations':
            s.persistence.diffbase_storage = kopf.AnnotationsDiffBaseStorage(
                prefix=prefix, v1=v1, key=storage.get('diffbase_key', 'last-handled-configuration'))
        elif dkind == 'status':
            s.persistence.diffbase_storage = kopf.StatusDiffBaseStorage(
                name=storage.get('name', 'kopf'))
        elif dkind == 'multi':
            s.persistence.diffbase_storage = kopf.MultiDiffBaseStorage([
                kopf.AnnotationsDiffBaseStorage(prefix=prefix, v1=v1),
                kopf.StatusDiffBaseStorage(name=storage.get('name', 'kopf')),
            ])
    return s


# --------------------------------------------------------------------------------------
# Scripted user code
# --------------------------------------------------------------------------------------
class SimHandlerError(Exception):
    """The arbitrary (non-kopf) exception raised by scripted handlers."""


class SimHandlerRuntimeError(SimHandlerError, RuntimeError):
    pass


class SimHandlerLookupError(SimHandlerError, LookupError):
    pass


class SimHandlerOSError(SimHandlerError, OSError):
    pass


def arbitrary_error(hid: str, n: int, msg: str) -> SimHandlerError:
    """The kind of the arbitrary exception varies with the handler and the attempt (a pure function of both)."""
    kinds = (SimHandlerError, SimHandlerRuntimeError, SimHandlerLookupError, SimHandlerOSError)
    return kinds[core.stable_hash(hid, n) % len(kinds)](msg)


def _script_step(script: list[dict[str, Any]], n: int) -> dict[str, Any]:
    if not script:
        return {'do': 'ok'}
    return script[n] if n < len(script) else script[-1]


_PREDICATES: dict[str, Callable[..., bool]] = {}


def make_predicate(expr: Any) -> Callable[..., bool]:
    """
    A tiny predicate language for `when=` and callback filters:
      {"field": "spec.x", "eq": 1} | {"field": "metadata.labels.a", "present": true} | {"const": false}
    """
    def when(**kwargs: Any) -> bool:
        if 'const' in expr:
            return bool(expr['const'])
        body = kwargs.get('body')
        val = resolve_field(body, expr['field'], None)
        if 'eq' in expr:
            return bool(val == expr['eq'])
        if 'ne' in expr:
            return bool(val != expr['ne'])
        if 'present' in expr:
            return (val is not None) == bool(expr['present'])
        return bool(val)
    return when


def make_value_callback(expr: Any) -> Callable[..., bool]:
    def check(value: Any, **kwargs: Any) -> bool:
        if 'eq' in expr:
            return bool(value == expr['eq'])
        if 'in' in expr:
            return value in expr['in']
        if 'present' in expr:
            return (value is not None) == bool(expr['present'])
        return bool(value)
    return check


def convert_meta_filter(spec: Optional[dict[str, Any]]) -> Optional[dict[str, Any]]:
    import kopf
    if not spec:
        return None
    out: dict[str, Any] = {}
    for k, v in spec.items():
        if v == '__PRESENT__':
            out[k] = kopf.PRESENT
        elif v == '__ABSENT__':
            out[k] = kopf.ABSENT
        elif isinstance(v, dict):
            out[k] = make_value_callback(v)
        else:
            out[k] = v
    return out


def convert_value_filter(v: Any) -> Any:
    import kopf
    if v == '__PRESENT__':
        return kopf.PRESENT
    if v == '__ABSENT__':
        return kopf.ABSENT
    if isinstance(v, dict) and ('eq' in v or 'in' in v or 'present' in v) and v.get('__cb__'):
        return make_value_callback(v)
    return v


def register_handlers(op: Operator, specs: list[dict[str, Any]]) -> None:
    import kopf
    registry = op.registry
    run = op.run
    errors_map = {None: None, 'temporary': kopf.ErrorsMode.TEMPORARY,
                  'permanent': kopf.ErrorsMode.PERMANENT, 'ignored': kopf.ErrorsMode.IGNORED}

    # The login handler is always there: it is the network seam.
    async def login(**_: Any) -> Any:
        if op.spec.get('login_reuses_revoked') and op.sessions and op.sessions[-1].revoked:
            # a broken login handler that hands out the very same (already invalidated) credentials again
            run.sim.log('login', op.actor, op.sessions[-1].token + '(again)')
            run.logins.append((run.sim.now, op.actor, op.sessions[-1].token))
            return op.last_credentials
        if op.spec.get('login_alternates'):
            # a login handler with two identities (a stale token source): A, B, A, B, ... -- the very same credentials
            # objects are offered again; those already invalidated must be refused, however long ago that was
            pool: list[Any] = op.__dict__.setdefault('cred_pool', [])
            k = op.__dict__.get('login_calls', 0) % 2
            op.__dict__['login_calls'] = op.__dict__.get('login_calls', 0) + 1
            if len(pool) > k:
                tok = pool[k].aiohttp_session.token
                run.sim.log('login', op.actor, tok + '(again)')
                run.logins.append((run.sim.now, op.actor, tok))
                op.last_credentials = pool[k]
                return pool[k]
            session = op.new_session()
            run.sim.log('login', op.actor, session.token)
            run.logins.append((run.sim.now, op.actor, session.token))
            op.last_credentials = kopf.AiohttpSession(server='http://sim', aiohttp_session=session)  # type: ignore[arg-type]
            pool.append(op.last_credentials)
            return op.last_credentials
        fails_from = op.spec.get('login_fails_from')
        if fails_from is not None and op.logins >= fails_from:
            run.sim.log('login-failed', op.actor)
            raise kopf.PermanentError('sim: no credentials can be obtained')
        session = op.new_session()
        run.sim.log('login', op.actor, session.token)
        run.logins.append((run.sim.now, op.actor, session.token))
        op.last_credentials = kopf.AiohttpSession(server='http://sim', aiohttp_session=session)  # type: ignore[arg-type]
        return op.last_credentials
    login.__name__ = login.__qualname__ = 'sim_login'
    kopf.on.login(registry=registry, id='sim_login')(login)

    shared_fns: dict[str, Any] = {}
    for hs in specs:
        kind = hs['kind']
        hid = hs['id']
        opts = dict(hs.get('opts', {}))
        common: dict[str, Any] = {}
        for k in ('timeout', 'retries', 'backoff'):
            if k in opts:
                common[k] = opts[k]
        if 'errors' in opts:
            common['errors'] = errors_map[opts['errors']]
        if 'param' in opts:
            common['param'] = opts['param']
        filt: dict[str, Any] = {}
        if opts.get('labels'):
            filt['labels'] = convert_meta_filter(opts['labels'])
        if opts.get('annotations'):
            filt['annotations'] = convert_meta_filter(opts['annotations'])
        if opts.get('when') is not None:
            filt['when'] = make_predicate(opts['when'])
        if opts.get('field') is not None:
            filt['field'] = opts['field']
        if 'value' in opts:
            filt['value'] = convert_value_filter(opts['value'])

        fn_key = hs.get('fn', hid)  # several registrations may share one function
        if fn_key in shared_fns:
            fn = shared_fns[fn_key]
        else:
            fn = make_fn(op, hs)
            fn.__name__ = fn.__qualname__ = str(fn_key)
            shared_fns[fn_key] = fn

        if kind in ('startup', 'cleanup', 'probe'):
            getattr(kopf.on, kind)(registry=registry, id=hid, **common)(fn)
            continue
        res = hs.get('resource', 'widgets')
        if kind in ('create', 'update', 'delete', 'resume', 'field'):
            extra: dict[str, Any] = {}
            if kind == 'delete' and 'optional' in opts:
                extra['optional'] = opts['optional']
            if kind == 'resume' and 'deleted' in opts:
                extra['deleted'] = opts['deleted']
            if kind in ('update', 'field'):
                if 'old' in opts:
                    extra['old'] = convert_value_filter(opts['old'])
                if 'new' in opts:
                    extra['new'] = convert_value_filter(opts['new'])
            getattr(kopf.on, kind)(res, registry=registry, id=hid, **common, **filt, **extra)(fn)
        elif kind == 'event':
            kopf.on.event(res, registry=registry, id=hid, **filt)(fn)
        elif kind == 'index':
            kopf.index(res, registry=registry, id=hid, **common, **filt)(fn)
        elif kind == 'daemon':
            extra = {k: opts[k] for k in ('initial_delay', 'cancellation_backoff',
                                          'cancellation_timeout', 'cancellation_polling') if k in opts}
            kopf.daemon(res, registry=registry, id=hid, **common, **filt, **extra)(fn)
        elif kind == 'timer':
            extra = {k: opts[k] for k in ('initial_delay', 'interval', 'idle', 'sharp') if k in opts}
            kopf.timer(res, registry=registry, id=hid, **common, **filt, **extra)(fn)
        else:
            raise ValueError(f"unknown handler kind {kind!r}")


def make_fn(op: Operator, hs: dict[str, Any]) -> Any:
    kind = hs['kind']
    if kind == 'daemon':
        return make_daemon_fn(op, hs)
    return make_oneshot_fn(op, hs)


def _begin_call(op: Operator, hs: dict[str, Any], hid: str, kwargs: dict[str, Any]) -> Call:
    run = op.run
    sim = run.sim
    c = Call()
    c.op, c.inc, c.hid, c.hkind = op.opid, op.incarnation, hid, hs['kind']
    body = kwargs.get('body')
    if body is not None:
        meta = body.get('metadata', {})
        c.uid, c.name, c.ns = meta.get('uid'), meta.get('name'), meta.get('namespace')
        c.rv = meta.get('resourceVersion')
        c.kind = body.get('kind')
        c.body = copy.deepcopy(dict(body))
        current_uid.set(c.uid)
    key = (hid, c.uid)
    c.n = run.call_counts[key]
    run.call_counts[key] += 1
    c.retry = kwargs.get('retry')
    c.param = kwargs.get('param')
    reason = kwargs.get('reason')
    c.reason = str(getattr(reason, 'value', reason)) if reason is not None else None
    if 'type' in kwargs and hs['kind'] == 'event':
        c.etype = kwargs.get('type')
    if hs['kind'] in ('create', 'update', 'delete', 'resume', 'field'):
        c.old = plain(kwargs.get('old'))
        c.new = plain(kwargs.get('new'))
        c.diff = plain(kwargs.get('diff'))
    started = kwargs.get('started')
    c.started = started.isoformat() if started is not None else None
    if hs.get('snapshot'):
        # a probe: what do the in-memory indices look like right now?
        snap: dict[str, Any] = {}
        for iid in hs['snapshot']:
            index = kwargs.get(iid)
            if index is not None:
                snap[iid] = {repr(k): sorted((plain(v) for v in index[k]), key=repr) for k in index}
        c.extra = {'indices': snap}
    c.t0 = sim.now
    c.seq0 = sim.log('h+', op.actor, hid, c.uid, c.n, c.retry, c.reason, c.rv)
    run.calls.append(c)
    for hook in run.call_hooks:
        hook('enter', c, kwargs)
    return c


def _end_call(op: Operator, c: Call, outcome: str) -> None:
    sim = op.run.sim
    c.outcome = outcome
    c.t1 = sim.now
    c.seq1 = sim.log('h-', op.actor, c.hid, c.uid, c.n, outcome)
    for hook in op.run.call_hooks:
        hook('exit', c, None)


def _apply_patch_actions(step: dict[str, Any], kwargs: dict[str, Any], c: Call) -> None:
    patch = kwargs.get('patch')
    if patch is None:
        return
    if step.get('patch'):
        def merge(dst: Any, src: dict[str, Any]) -> None:
            for k, v in src.items():
                if isinstance(v, dict):
                    merge(dst.setdefault(k, {}), v)
                else:
                    dst[k] = v
        merge(patch, copy.deepcopy(step['patch']))
    for token in step.get('append', []):
        # A state-dependent transformation: append a unique token to a list field.
        path, value = token['path'], token['value']

        def fn(body: dict[str, Any], path: str = path, value: Any = value) -> None:
            parts = path.split('.')
            cur = body
            for p in parts[:-1]:
                cur = cur.setdefault(p, {})
            lst = cur.setdefault(parts[-1], [])
            if value not in lst:
                lst.append(value)
        patch.fns.append(fn)


def make_oneshot_fn(op: Operator, hs: dict[str, Any]) -> Any:
    import kopf
    run = op.run
    hid = hs['id']
    script = hs.get('script', [])
    per_object = hs.get('scripts', {})  # name -> script (overrides)
    subs = hs.get('subs', [])

    if hs.get('sync'):
        # a synchronous handler: kopf runs it in the executor's (simulated) thread; its blocking calls are simsleep()
        def sync_fn(**kwargs: Any) -> Any:
            c = _begin_call(op, hs, hid, kwargs)
            sc = per_object.get(c.name, script) if c.name is not None else script
            step = _script_step(sc, c.n)
            outcome = 'cancelled'
            aborted = False
            try:
                dur = step.get('dur', 0.0)
                if dur:
                    threads.simsleep(dur)
                _apply_patch_actions(step, kwargs, c)
                if subs and hs['kind'] in ('create', 'update', 'delete', 'resume', 'field'):
                    for sub in subs:
                        subfn = make_oneshot_fn(op, dict(sub, kind=hs['kind'], id=f"{hid}/{sub['id']}"))
                        subfn.__name__ = subfn.__qualname__ = sub['id']
                        so = sub.get('opts', {})
                        kw = {k: so[k] for k in ('timeout', 'retries', 'backoff') if k in so}
                        kopf.subhandler(id=sub['id'], **kw)(subfn)
                do = step.get('do', 'ok')
                if do == 'ok':
                    outcome = 'ok'
                    return copy.deepcopy(step.get('result'))
                elif do == 'temp':
                    outcome = 'temp'
                    raise kopf.TemporaryError(f"scripted temporary error #{c.n}", delay=step.get('delay', 1.0))
                elif do == 'perm':
                    outcome = 'perm'
                    raise kopf.PermanentError(f"scripted permanent error #{c.n}")
                elif do == 'exc':
                    outcome = 'exc'
                    raise arbitrary_error(hid, c.n, f"scripted arbitrary error #{c.n} ☃")
                else:
                    raise ValueError(f"unknown scripted outcome {do!r}")
            except threads.SimThreadAbort:
                aborted = True
                raise
            finally:
                if not aborted:
                    _end_call(op, c, outcome)

        return sync_fn

    async def fn(**kwargs: Any) -> Any:
        c = _begin_call(op, hs, hid, kwargs)
        sc = per_object.get(c.name, script) if c.name is not None else script
        step = _script_step(sc, c.n)
        outcome = 'cancelled'
        try:
            dur = step.get('dur', 0.0)
            if dur:
                await asyncio.sleep(dur)
            _apply_patch_actions(step, kwargs, c)
            if subs and hs['kind'] in ('create', 'update', 'delete', 'resume', 'field'):
                for sub in subs:
                    subfn = make_oneshot_fn(op, dict(sub, kind=hs['kind'], id=f"{hid}/{sub['id']}"))
                    subfn.__name__ = subfn.__qualname__ = sub['id']
                    so = sub.get('opts', {})
                    kw = {k: so[k] for k in ('timeout', 'retries', 'backoff') if k in so}
                    kopf.subhandler(id=sub['id'], **kw)(subfn)
            do = step.get('do', 'ok')
            if do == 'ok':
                outcome = 'ok'
                return copy.deepcopy(step.get('result'))
            elif do == 'temp':
                outcome = 'temp'
                raise kopf.TemporaryError(f"scripted temporary error #{c.n}", delay=step.get('delay', 1.0))
            elif do == 'perm':
                outcome = 'perm'
                raise kopf.PermanentError(f"scripted permanent error #{c.n}")
            elif do == 'exc':
                outcome = 'exc'
                raise arbitrary_error(hid, c.n, f"scripted arbitrary error #{c.n} ☃")
            else:
                raise ValueError(f"unknown scripted outcome {do!r}")
        except asyncio.CancelledError:
            outcome = 'cancelled'
            raise
        finally:
            _end_call(op, c, outcome)

    return fn


def make_daemon_fn(op: Operator, hs: dict[str, Any]) -> Any:
    run = op.run
    hid = hs['id']
    behaviour = hs.get('daemon', {})
    mode = behaviour.get('mode', 'obey')
    poll = behaviour.get('poll', 0.5)

    if behaviour.get('sync'):
        # A synchronous daemon (a simulated thread). It cannot be cancelled; what it does about its stop flag:
        #   obey   -- blocks in stopped.wait() and returns when the flag is raised (+ exit_delay);
        #   poll   -- looks at the flag between blocking calls of `poll` seconds;
        #   ignore -- goes on for `hold` seconds after the flag was raised (looking every `poll` seconds);
        #   exit / raise / temp -- as the async ones.
        def sync_fn(**kwargs: Any) -> Any:
            c = _begin_call(op, hs, hid, kwargs)
            stopped = kwargs['stopped']
            sim = run.sim
            outcome = 'returned'
            c.extra = {'sync': True}
            aborted = False

            def on_set(t: float) -> None:
                c.extra.setdefault('flag_at', t)
                c.extra.setdefault('reason_at_flag', str(stopped.reason))

            def note_flag() -> None:
                if bool(stopped) and 'flag_at' not in c.extra:
                    on_set(sim.now)

            ev = stopped._setter.sync_event
            if isinstance(ev, threads.SimEvent):
                if ev.is_set():
                    on_set(ev.sim_set_at if ev.sim_set_at is not None else sim.now)
                else:
                    ev.sim_on_set.append(on_set)
            try:
                if mode == 'obey':
                    stopped.wait()
                    note_flag()
                    c.extra['flag_seen_at'] = sim.now
                    c.extra['reason_seen'] = str(stopped.reason)
                    extra_delay = behaviour.get('exit_delay', 0.0)
                    if extra_delay:
                        threads.simsleep(extra_delay)
                elif mode == 'poll':
                    while not stopped:
                        threads.simsleep(poll)
                    note_flag()
                    c.extra['flag_seen_at'] = sim.now
                    c.extra['reason_seen'] = str(stopped.reason)
                elif mode in ('ignore', 'cancel'):
                    hold = behaviour.get('hold', 5.0)
                    stopped.wait()
                    note_flag()
                    threads.simsleep(hold)
                elif mode == 'exit':
                    threads.simsleep(behaviour.get('after', 1.0))
                    outcome = 'returned-own'
                elif mode == 'raise':
                    threads.simsleep(behaviour.get('after', 1.0))
                    outcome = 'raised'
                    raise arbitrary_error(hid, c.n, "scripted daemon failure")
                elif mode == 'temp':
                    import kopf
                    threads.simsleep(behaviour.get('after', 1.0))
                    outcome = 'temp'
                    raise kopf.TemporaryError("scripted daemon temporary", delay=behaviour.get('delay', 1.0))
                return copy.deepcopy(behaviour.get('result'))
            except threads.SimThreadAbort:
                aborted = True
                raise
            finally:
                if not aborted:
                    note_flag()
                    c.stop_seen = bool(stopped)
                    c.extra['reason_at_exit'] = str(stopped.reason)
                    _end_call(op, c, outcome)

        return sync_fn

    async def fn(**kwargs: Any) -> Any:
        c = _begin_call(op, hs, hid, kwargs)
        stopped = kwargs['stopped']
        sim = run.sim
        outcome = 'returned'
        c.extra = {}

        async def watch_flag() -> None:
            await stopped.wait()
            c.extra['flag_at'] = sim.now
            c.extra['reason_at_flag'] = str(stopped.reason)

        watcher = asyncio.ensure_future(watch_flag())
        try:
            if mode == 'obey':
                # exits promptly when the flag is set
                await stopped.wait()
                c.extra['flag_seen_at'] = sim.now
                c.extra['reason_seen'] = str(stopped.reason)
                extra_delay = behaviour.get('exit_delay', 0.0)
                if extra_delay:
                    await asyncio.sleep(extra_delay)
            elif mode == 'poll':
                while not stopped:
                    await asyncio.sleep(poll)
                c.extra['flag_seen_at'] = sim.now
                c.extra['reason_seen'] = str(stopped.reason)
            elif mode == 'cancel':
                # ignores the flag; exits only when cancelled
                await asyncio.Event().wait()
            elif mode == 'ignore':
                # ignores the flag and swallows cancellations for `hold` seconds after the first one
                hold = behaviour.get('hold', 5.0)
                first_cancel: Optional[float] = None
                while True:
                    try:
                        if first_cancel is not None:
                            left = first_cancel + hold - sim.now
                            if left <= 0 or op.tearing_down:
                                break
                            await asyncio.sleep(left)
                            break
                        await asyncio.Event().wait()
                    except asyncio.CancelledError:
                        if op.tearing_down:
                            raise
                        if first_cancel is None:
                            first_cancel = sim.now
                            c.extra['first_cancel_at'] = sim.now
                        c.extra['cancels'] = c.extra.get('cancels', 0) + 1
            elif mode == 'exit':
                await asyncio.sleep(behaviour.get('after', 1.0))
                outcome = 'returned-own'
            elif mode == 'raise':
                await asyncio.sleep(behaviour.get('after', 1.0))
                outcome = 'raised'
                raise arbitrary_error(hid, c.n, "scripted daemon failure")
            elif mode == 'temp':
                import kopf
                await asyncio.sleep(behaviour.get('after', 1.0))
                outcome = 'temp'
                raise kopf.TemporaryError("scripted daemon temporary", delay=behaviour.get('delay', 1.0))
            return copy.deepcopy(behaviour.get('result'))
        except asyncio.CancelledError:
            outcome = 'cancelled'
            c.cancelled = True
            raise
        finally:
            watcher.cancel()
            c.stop_seen = bool(stopped)
            if c.extra is not None and bool(stopped) and 'flag_at' not in c.extra:
                # the flag was raised within this very instant: the observing sub-task has not had its turn yet
                # (had virtual time passed since, it would have run)
                c.extra['flag_at'] = sim.now
                c.extra['reason_at_flag'] = str(stopped.reason)
            if c.extra is not None:
                c.extra['reason_at_exit'] = str(stopped.reason)
            _end_call(op, c, outcome)

    return fn


# --------------------------------------------------------------------------------------
# The run
# --------------------------------------------------------------------------------------
DEFAULT_KINDS = {
    'widgets': dict(group='sim.dev', version='v1', plural='widgets', kind='Widget',
                    shortnames=('wd',), categories=('simall',)),
    'gadgets': dict(group='sim.dev', version='v1', plural='gadgets', kind='Gadget',
                    shortnames=('gd',), categories=('simall',)),
    'gizmos': dict(group='other.dev', version='v1', plural='gizmos', kind='Gizmo'),
}


class Run:
    def __init__(self, plan: dict[str, Any]) -> None:
        self.plan = plan
        self.sim = core.Sim(seed=int(plan.get('seed', 0)), tick=plan.get('tick', 1e-6),
                            tie_random=plan.get('tie_random', False),
                            tie_ext_first=plan.get('tie_ext_first', True))
        self.cluster = cl.FakeCluster(self.sim, **plan.get('cluster_knobs', {}))
        self.net = net.Network(self.sim, self.cluster, **plan.get('net', {}))
        self.ops: dict[str, list[Operator]] = {}
        self.calls: list[Call] = []
        self.call_counts: collections.Counter[tuple[str, Optional[str]]] = collections.Counter()
        self.call_hooks: list[Callable[[str, Call, Optional[dict[str, Any]]], None]] = []
        self.transitions: list[cl.Transition] = []
        self.logins: list[tuple[float, str, str]] = []
        self.logs: list[tuple[float, str, str, str]] = []
        self.rdefs: dict[str, cl.ResourceDef] = {}
        self.error: Optional[BaseException] = None
        self.stalled: Optional[str] = None
        self.step_capped = False
        self.cluster.listeners.append(self.transitions.append)
        self.triggers: list[dict[str, Any]] = [dict(t, _fired=0) for t in plan.get('triggers', [])]
        if self.triggers:
            self.call_hooks.append(self._on_call_for_triggers)
            self.cluster.listeners.append(self._on_transition_for_triggers)

    # ------------------------------------------------------------------
    def rdef(self, plural: str) -> cl.ResourceDef:
        if plural in self.rdefs:
            return self.rdefs[plural]
        for rd in self.cluster.defs.values():
            if rd.plural == plural:
                return rd
        raise KeyError(plural)

    def op(self, opid: str) -> Optional[Operator]:
        incs = self.ops.get(opid)
        return incs[-1] if incs else None

    def setup(self) -> None:
        plan = self.plan
        c = self.cluster
        for ns in plan.get('namespaces', ['default']):
            c.ensure_namespace(ns)
        for kd in plan.get('kinds', [{'plural': 'widgets'}]):
            base = dict(DEFAULT_KINDS.get(kd['plural'], {}))
            base.update(kd)
            rd = cl.ResourceDef(base['group'], base['version'], base['plural'], base['kind'],
                                namespaced=base.get('namespaced', True),
                                shortnames=tuple(base.get('shortnames', ())),
                                categories=tuple(base.get('categories', ())),
                                status_subresource=base.get('status_subresource', False))
            self.rdefs[rd.plural] = rd
            if base.get('installed', True):
                c.install_crd(rd)
        peering = plan.get('peering')
        if peering:
            for rd in (cl.CLUSTER_PEERINGS, cl.NAMESPACED_PEERINGS):
                self.rdefs[rd.plural] = rd
                c.install_crd(rd)
            for obj in peering.get('objects', [{'kind': 'clusterkopfpeerings', 'name': 'default'}]):
                rd = self.rdef(obj['kind'])
                c.create(rd, obj.get('ns'), {'metadata': {'name': obj['name']},
                                             **({'status': obj['status']} if 'status' in obj else {})},
                         actor='admin')
        for obj in plan.get('objects', []):
            rd = self.rdef(obj.get('kind', 'widgets'))
            c.create(rd, obj.get('ns', 'default'), copy.deepcopy(obj['body']), actor='user')

    # ------------------------------------------------------------------
    def do_action(self, a: dict[str, Any]) -> None:
        do = a['do']
        sim = self.sim
        c = self.cluster
        sim.log('act', do, a.get('op'), a.get('kind'), a.get('name'))
        sim.count('act.' + do)
        if do == 'start':
            spec = next(s for s in self.plan['operators'] if s['id'] == a['op'])
            incs = self.ops.setdefault(a['op'], [])
            if incs and incs[-1].alive:
                return
            op = Operator(self, spec, len(incs) + 1)
            incs.append(op)
            op.start()
        elif do in ('stop', 'cancel', 'kill', 'stall', 'revoke'):
            op = self.op(a['op'])
            if op is None or not op.alive:
                return
            if do == 'stop':
                op.stop()
            elif do == 'cancel':
                op.cancel()
            elif do == 'kill':
                op.kill(inflight_lands=a.get('inflight_lands', False))
            elif do == 'stall':
                assert op.loop is not None
                sim.stall_loop(op.loop, a['dur'])
            elif do == 'revoke':
                for s in op.sessions:
                    if not s.revoked:
                        s.revoked = True
                        s.revoked_at = sim.now  # type: ignore[attr-defined]
                sim.count('fault.revoke')
        elif do == 'create':
            rd = self.rdef(a.get('kind', 'widgets'))
            c.create(rd, a.get('ns', 'default'), copy.deepcopy(a['body']), actor=a.get('actor', 'user'))
        elif do == 'patch':
            rd = self.rdef(a.get('kind', 'widgets'))
            c.patch(rd, a.get('ns', 'default'), a['name'], copy.deepcopy(a['patch']),
                    content_type='application/merge-patch+json', subresource=a.get('sub'),
                    actor=a.get('actor', 'user'))
        elif do == 'delete':
            rd = self.rdef(a.get('kind', 'widgets'))
            c.delete(rd, a.get('ns', 'default'), a['name'], actor=a.get('actor', 'user'))
        elif do == 'edit':
            rd = self.rdef(a.get('kind', 'widgets'))
            c.replace_fields(rd, a.get('ns', 'default'), a['name'], _EDITS[a['edit']](a),
                             actor=a.get('actor', 'user'), subresource=a.get('sub'))
        elif do == 'copy-annotations':
            # what the deployment controller does on a rollout: the owner's annotations are copied onto the owned
            src = c.get(self.rdef(a['from_kind']), a.get('ns', 'default'), a['from_name'])
            if src is not None:
                anns = dict((src.get('metadata') or {}).get('annotations') or {})
                c.patch(self.rdef(a['kind']), a.get('ns', 'default'), a['name'], {'metadata': {'annotations': anns}},
                        content_type='application/merge-patch+json', actor=a.get('actor', 'deployment-controller'))
        elif do == 'recreate':
            # delete (force: strip finalizers) and create anew under the same name
            rd = self.rdef(a.get('kind', 'widgets'))
            ns = a.get('ns', 'default')
            if c.get(rd, ns, a['name']) is not None:
                c.replace_fields(rd, ns, a['name'], lambda o: o['metadata'].pop('finalizers', None),
                                 actor=a.get('actor', 'user'))
                if c.get(rd, ns, a['name']) is not None:
                    c.delete(rd, ns, a['name'], actor=a.get('actor', 'user'))
            c.create(rd, ns, copy.deepcopy(a['body']), actor=a.get('actor', 'user'))
        elif do == 'crd-install':
            c.install_crd(self.rdefs[a['kind']])
        elif do == 'crd-uninstall':
            c.uninstall_crd(self.rdefs[a['kind']])
        elif do == 'ns-create':
            c.ensure_namespace(a['name'])
        elif do == 'ns-delete':
            c.delete(cl.NAMESPACES, None, a['name'], actor='admin')
        elif do == 'compact':
            c.compact(self.rdef(a.get('kind', 'widgets')))
        elif do == 'close-streams':
            for conn in list(self.net.open_streams):
                if a.get('kind') in (None, conn.rdef.plural) and \
                        (a.get('op') is None or conn.actor.startswith(a['op'] + '#')):
                    if a.get('how', 'eof') == 'eof':
                        conn.server_close('fault-eof')
                    else:
                        conn._break(a.get('exc', 'ClientPayloadError'), 'fault-reset')
                    sim.count('fault.stream-' + a.get('how', 'eof'))
        elif do == 'stream-error':
            for conn in list(self.net.open_streams):
                if a.get('kind') in (None, conn.rdef.plural) and \
                        (a.get('op') is None or conn.actor.startswith(a['op'] + '#')):
                    conn._on_server_event({'type': 'ERROR', 'object': a.get('object') or cl.status_payload(
                        a.get('code', 500), 'InternalError', 'sim: injected watch error')})
                    sim.count('fault.stream-error')
        elif do in ('peer-set', 'peer-clear'):
            rd = self.rdef(a.get('kind', 'clusterkopfpeerings'))
            if do == 'peer-set':
                rec: Any = {'priority': a.get('priority', 100), 'lifetime': a.get('lifetime', 60),
                            'lastseen': core.wall_now().replace(tzinfo=None).isoformat()}
                rec.update(a.get('extra', {}))
                for k in a.get('omit', []):
                    rec.pop(k, None)
            else:
                rec = None
            c.patch(rd, a.get('ns'), a.get('name', 'default'), {'status': {a['identity']: rec}},
                    content_type='application/merge-patch+json', actor=a.get('actor', a['identity']))
        elif do == 'rule':
            self.net.rules.append(dict(a['rule'], _hits=0, _seen=0))
        elif do == 'noop':
            pass
        else:
            raise ValueError(f"unknown action {do!r}")

    # --- triggers: actions placed relative to what the system does ---
    def _fire(self, trg: dict[str, Any]) -> None:
        trg['_fired'] += 1
        for a in trg['actions']:
            self.sim.after(a.get('delay', 0.0), self.do_action, a)

    def _on_call_for_triggers(self, phase: str, c: Call, kwargs: Any) -> None:
        for trg in self.triggers:
            on = trg['on']
            if on.get('what') != ('h+' if phase == 'enter' else 'h-'):
                continue
            if trg['_fired'] >= trg.get('times', 1):
                continue
            if 'hid' in on and on['hid'] != c.hid:
                continue
            if 'name' in on and on['name'] != c.name:
                continue
            if 'n' in on and on['n'] != c.n:
                continue
            if 'op' in on and on['op'] != c.op:
                continue
            self._fire(trg)

    def _on_transition_for_triggers(self, tr: cl.Transition) -> None:
        for trg in self.triggers:
            on = trg['on']
            if on.get('what') != 'write':
                continue
            if trg['_fired'] >= trg.get('times', 1):
                continue
            if 'name' in on and on['name'] != tr.name:
                continue
            if 'actor_prefix' in on and not str(tr.actor).startswith(on['actor_prefix']):
                continue
            if 'verb' in on and on['verb'] != tr.verb:
                continue
            trg['_seen'] = trg.get('_seen', 0) + 1
            if 'nth' in on and trg['_seen'] != on['nth']:
                continue
            self._fire(trg)

    # ------------------------------------------------------------------
    def execute(self, cpu_budget: float = 25.0) -> "Run":
        _setup_logging()
        _capture.run = self
        sim = self.sim
        core.begin_run(sim)
        core.install_seams()
        from kopfsim import taps
        taps.install()
        core.arm_watchdog(cpu_budget)
        try:
            self.setup()
            for a in self.plan.get('actions', []):
                sim.at(a['t'], self.do_action, a)
            sim.run(until=float(self.plan.get('until', 60.0)),
                    max_steps=int(self.plan.get('max_steps', 150_000)))
        except core.StepCapReached as e:
            self.step_capped = True
            self.error = e
        except core.SimStall as e:
            import traceback
            self.stalled = ''.join(traceback.format_exception(e)[-12:])
            self.error = e
        finally:
            core.disarm_watchdog()
        return self

    def finish(self) -> None:
        """Tear everything down (after the oracles have looked at the run)."""
        core.arm_watchdog(20.0)
        try:
            for incs in self.ops.values():
                for op in incs:
                    op.teardown()
        except core.SimStall:
            pass
        finally:
            core.disarm_watchdog()
            _capture.run = None
            core.end_run()
        self.sim.loops.clear()
        # coroutines of dead processes are closed by the collector outside of any loop: what their `finally` blocks
        # complain about then ("no running event loop") is noise of the teardown, not of the run
        import sys as _sys
        old_hook = _sys.unraisablehook
        _sys.unraisablehook = lambda *_a, **_k: None
        try:
            gc.collect()
        finally:
            _sys.unraisablehook = old_hook


def _edit_add_finalizer(a: dict[str, Any]) -> Callable[[dict[str, Any]], None]:
    def fn(o: dict[str, Any]) -> None:
        fins = o['metadata'].setdefault('finalizers', [])
        if a['value'] not in fins:
            pos = a.get('pos')
            if pos is None or pos >= len(fins):
                fins.append(a['value'])
            else:
                fins.insert(pos, a['value'])
    return fn


def _edit_remove_finalizer(a: dict[str, Any]) -> Callable[[dict[str, Any]], None]:
    def fn(o: dict[str, Any]) -> None:
        fins = o['metadata'].get('finalizers', [])
        if a['value'] in fins:
            fins.remove(a['value'])
    return fn


def _edit_strip_finalizers(a: dict[str, Any]) -> Callable[[dict[str, Any]], None]:
    def fn(o: dict[str, Any]) -> None:
        o['metadata'].pop('finalizers', None)
    return fn


def _edit_reverse_finalizers(a: dict[str, Any]) -> Callable[[dict[str, Any]], None]:
    def fn(o: dict[str, Any]) -> None:
        fins = o['metadata'].get('finalizers')
        if fins:
            # only foreign ones are reordered among themselves, by a foreign actor
            foreign = [f for f in fins if f != a.get('keep')]
            foreign.reverse()
            it = iter(foreign)
            o['metadata']['finalizers'] = [f if f == a.get('keep') else next(it) for f in fins]
    return fn


def _edit_set(a: dict[str, Any]) -> Callable[[dict[str, Any]], None]:
    def fn(o: dict[str, Any]) -> None:
        parts = a['path'].split('.')
        cur = o
        for p in parts[:-1]:
            cur = cur.setdefault(p, {})
        if a.get('value') is None:
            cur.pop(parts[-1], None)
        else:
            cur[parts[-1]] = copy.deepcopy(a['value'])
    return fn


_EDITS: dict[str, Callable[[dict[str, Any]], Callable[[dict[str, Any]], None]]] = {
    'add-finalizer': _edit_add_finalizer,
    'remove-finalizer': _edit_remove_finalizer,
    'strip-finalizers': _edit_strip_finalizers,
    'reverse-finalizers': _edit_reverse_finalizers,
    'set': _edit_set,
}


def run_plan(plan: dict[str, Any], cpu_budget: float = 25.0) -> Run:
    run = Run(plan)
    run.execute(cpu_budget=cpu_budget)
    return run
