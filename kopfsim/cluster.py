"""
FakeCluster: a small executable model of the Kubernetes API server, written from
the API conventions kopf relies on (not from kopf's code). It is the reference
model on the other side of every seam: kopf's requests are applied here with
Kubernetes semantics and the resulting watch events are streamed back.

Stored objects are never mutated in place: every write builds a new dict, so
"before"/"after" snapshots handed to oracles stay valid for the whole run.
"""
from __future__ import annotations

import copy
import json
import re
import urllib.parse
from typing import Any, Callable, Optional

from kopfsim import core

Obj = dict[str, Any]


# --------------------------------------------------------------------------------------
# RFC 7386 (JSON merge patch) and RFC 6902 (JSON patch), independent implementations.
# --------------------------------------------------------------------------------------
def merge_patch(target: Any, patch: Any) -> Any:
    if not isinstance(patch, dict):
        return copy.deepcopy(patch)
    result = dict(target) if isinstance(target, dict) else {}
    for key, value in patch.items():
        if value is None:
            result.pop(key, None)
        else:
            result[key] = merge_patch(result.get(key), value)
    return result


class JsonPatchError(Exception):
    pass


class JsonPatchTestFailed(JsonPatchError):
    pass


def _ptr(path: str) -> list[str]:
    if path == '':
        return []
    if not path.startswith('/'):
        raise JsonPatchError(f"bad pointer {path!r}")
    return [p.replace('~1', '/').replace('~0', '~') for p in path[1:].split('/')]


def _walk(doc: Any, parts: list[str]) -> Any:
    for part in parts:
        if isinstance(doc, dict):
            if part not in doc:
                raise JsonPatchError(f"path not found: {part!r}")
            doc = doc[part]
        elif isinstance(doc, list):
            try:
                idx = int(part)
            except ValueError:
                raise JsonPatchError(f"bad index {part!r}")
            if not 0 <= idx < len(doc):
                raise JsonPatchError(f"index out of range: {part!r}")
            doc = doc[idx]
        else:
            raise JsonPatchError(f"cannot descend into scalar at {part!r}")
    return doc


def _add(doc: Any, parts: list[str], value: Any) -> Any:
    if not parts:
        return value
    parent = _walk(doc, parts[:-1])
    last = parts[-1]
    if isinstance(parent, dict):
        parent[last] = value
    elif isinstance(parent, list):
        if last == '-':
            parent.append(value)
        else:
            try:
                idx = int(last)
            except ValueError:
                raise JsonPatchError(f"bad index {last!r}")
            if not 0 <= idx <= len(parent):
                raise JsonPatchError(f"index out of range: {last!r}")
            parent.insert(idx, value)
    else:
        raise JsonPatchError("cannot add into a scalar")
    return doc


def _remove(doc: Any, parts: list[str]) -> Any:
    if not parts:
        raise JsonPatchError("cannot remove the root")
    parent = _walk(doc, parts[:-1])
    last = parts[-1]
    if isinstance(parent, dict):
        if last not in parent:
            raise JsonPatchError(f"path not found: {last!r}")
        del parent[last]
    elif isinstance(parent, list):
        try:
            idx = int(last)
        except ValueError:
            raise JsonPatchError(f"bad index {last!r}")
        if not 0 <= idx < len(parent):
            raise JsonPatchError(f"index out of range: {last!r}")
        del parent[idx]
    else:
        raise JsonPatchError("cannot remove from a scalar")
    return doc


def json_patch(target: Any, ops: list[dict[str, Any]]) -> Any:
    doc = copy.deepcopy(target)
    for op in ops:
        kind = op.get('op')
        parts = _ptr(op.get('path', ''))
        if kind == 'test':
            try:
                actual = _walk(doc, parts)
            except JsonPatchError:
                raise JsonPatchTestFailed(f"test failed: path {op.get('path')!r} is absent")
            if actual != op.get('value'):
                raise JsonPatchTestFailed(f"test failed at {op.get('path')!r}")
        elif kind == 'add':
            doc = _add(doc, parts, copy.deepcopy(op.get('value')))
        elif kind == 'remove':
            doc = _remove(doc, parts)
        elif kind == 'replace':
            _walk(doc, parts)  # must exist
            doc = _remove(doc, parts) if parts else doc
            doc = _add(doc, parts, copy.deepcopy(op.get('value')))
        elif kind == 'move':
            src = _ptr(op.get('from', ''))
            value = _walk(doc, src)
            doc = _remove(doc, src)
            doc = _add(doc, parts, value)
        elif kind == 'copy':
            src = _ptr(op.get('from', ''))
            doc = _add(doc, parts, copy.deepcopy(_walk(doc, src)))
        else:
            raise JsonPatchError(f"unknown op {kind!r}")
    return doc


# --------------------------------------------------------------------------------------
# Validation that real clusters apply and that the persistence properties depend on.
# --------------------------------------------------------------------------------------
_DNS_LABEL = r'[a-z0-9]([-a-z0-9]*[a-z0-9])?'
_DNS_SUBDOMAIN = re.compile(rf'^{_DNS_LABEL}(\.{_DNS_LABEL})*$')
_QUALIFIED_NAME = re.compile(r'^[A-Za-z0-9]([-A-Za-z0-9_.]*[A-Za-z0-9])?$')
TOTAL_ANNOTATIONS_LIMIT = 256 * 1024


def validate_annotation_key(key: str) -> Optional[str]:
    if not isinstance(key, str) or not key:
        return "empty key"
    parts = key.split('/')
    if len(parts) > 2:
        return "a qualified name must consist of at most one '/'"
    if len(parts) == 2:
        prefix, name = parts
        if not prefix:
            return "prefix part must be non-empty"
        if len(prefix) > 253:
            return "prefix part must be no more than 253 characters"
        if not _DNS_SUBDOMAIN.match(prefix):
            return "prefix part must be a lowercase RFC 1123 subdomain"
    else:
        name = parts[0]
    if not name:
        return "name part must be non-empty"
    if len(name) > 63:
        return "name part must be no more than 63 characters"
    if not _QUALIFIED_NAME.match(name):
        return "name part must consist of alphanumeric characters, '-', '_' or '.'"
    return None


def validate_annotations(annotations: Any) -> Optional[str]:
    if annotations is None:
        return None
    if not isinstance(annotations, dict):
        return "annotations must be a map"
    total = 0
    for key, val in annotations.items():
        err = validate_annotation_key(key)
        if err:
            return f"metadata.annotations: Invalid value: {key!r}: {err}"
        if not isinstance(val, str):
            return f"metadata.annotations[{key!r}]: must be a string"
        total += len(key.encode('utf-8')) + len(val.encode('utf-8'))
    if total > TOTAL_ANNOTATIONS_LIMIT:
        return f"metadata.annotations: Too long: must have at most {TOTAL_ANNOTATIONS_LIMIT} bytes"
    return None


# --------------------------------------------------------------------------------------
class ResourceDef:
    def __init__(self, group: str, version: str, plural: str, kind: str, *,
                 singular: Optional[str] = None, namespaced: bool = True,
                 shortnames: tuple[str, ...] = (), categories: tuple[str, ...] = (),
                 status_subresource: bool = False,
                 verbs: tuple[str, ...] = ('create', 'delete', 'deletecollection', 'get', 'list',
                                           'patch', 'update', 'watch')) -> None:
        self.group = group
        self.version = version
        self.plural = plural
        self.kind = kind
        self.singular = singular if singular is not None else kind.lower()
        self.namespaced = namespaced
        self.shortnames = shortnames
        self.categories = categories
        self.status_subresource = status_subresource
        self.verbs = verbs

    @property
    def key(self) -> tuple[str, str, str]:
        return (self.group, self.version, self.plural)

    @property
    def api_version(self) -> str:
        return f'{self.group}/{self.version}' if self.group else self.version


NAMESPACES = ResourceDef('', 'v1', 'namespaces', 'Namespace', namespaced=False, shortnames=('ns',),
                         status_subresource=True)
EVENTS = ResourceDef('', 'v1', 'events', 'Event', namespaced=True, shortnames=('ev',))
CRDS = ResourceDef('apiextensions.k8s.io', 'v1', 'customresourcedefinitions',
                   'CustomResourceDefinition', namespaced=False, shortnames=('crd', 'crds'),
                   status_subresource=True)
CLUSTER_PEERINGS = ResourceDef('kopf.dev', 'v1', 'clusterkopfpeerings', 'ClusterKopfPeering',
                               namespaced=False)
NAMESPACED_PEERINGS = ResourceDef('kopf.dev', 'v1', 'kopfpeerings', 'KopfPeering', namespaced=True)


class Watch:
    """A server-side open watch connection."""

    def __init__(self, wid: int, rdef: ResourceDef, namespace: Optional[str], actor: str,
                 bookmarks: bool) -> None:
        self.wid = wid
        self.rdef = rdef
        self.namespace = namespace
        self.actor = actor
        self.bookmarks = bookmarks
        self.open = True
        self.sink: Optional[Callable[[Optional[Obj]], None]] = None  # set by the transport
        self.sent = 0
        self.last_sent_rv = 0


class Transition:
    """One applied write, as shown to the invariants."""
    __slots__ = ('seq', 't', 'actor', 'verb', 'rkey', 'ns', 'name', 'uid', 'before', 'after',
                 'request', 'subresource', 'content_type', 'ctx')

    def __init__(self, **kw: Any) -> None:
        for k in self.__slots__:
            setattr(self, k, kw.get(k))


def status_payload(code: int, reason: str, message: str, details: Optional[Obj] = None) -> Obj:
    return {'kind': 'Status', 'apiVersion': 'v1', 'metadata': {}, 'status': 'Failure',
            'message': message, 'reason': reason, 'details': details or {}, 'code': code}


class FakeCluster:
    def __init__(self, sim: core.Sim, *, history_limit: int = 10_000,
                 deleted_event_keeps_finalizer: bool = True,
                 final_patch_bumps_rv: bool = False,
                 bookmark_interval: Optional[float] = None) -> None:
        self.sim = sim
        self.defs: dict[tuple[str, str, str], ResourceDef] = {}
        self.objects: dict[tuple[str, str, str, Optional[str], str], Obj] = {}
        self.rv = 100
        self.uid_counter = 0
        self.history: dict[tuple[str, str, str], list[tuple[int, str, Obj]]] = {}
        self.history_floor: dict[tuple[str, str, str], int] = {}
        self.history_limit = history_limit
        self.watches: list[Watch] = []
        self.watch_counter = 0
        self.listeners: list[Callable[[Transition], None]] = []
        self.deleted_event_keeps_finalizer = deleted_event_keeps_finalizer
        self.final_patch_bumps_rv = final_patch_bumps_rv
        self.bookmark_interval = bookmark_interval
        self.request_log: list[tuple] = []  # type: ignore[type-arg]
        for rdef in (NAMESPACES, EVENTS, CRDS):
            self.add_def(rdef)

    # --- resource definitions ---
    def add_def(self, rdef: ResourceDef) -> None:
        self.defs[rdef.key] = rdef
        self.history.setdefault(rdef.key, [])
        self.history_floor.setdefault(rdef.key, self.rv)

    def remove_def(self, key: tuple[str, str, str]) -> None:
        self.defs.pop(key, None)
        for w in list(self.watches):
            if w.rdef.key == key:
                self.close_watch(w)

    def crd_body(self, rdef: ResourceDef) -> Obj:
        return {
            'apiVersion': 'apiextensions.k8s.io/v1', 'kind': 'CustomResourceDefinition',
            'metadata': {'name': f'{rdef.plural}.{rdef.group}'},
            'spec': {'group': rdef.group, 'scope': 'Namespaced' if rdef.namespaced else 'Cluster',
                     'names': {'plural': rdef.plural, 'kind': rdef.kind, 'singular': rdef.singular,
                               'shortNames': list(rdef.shortnames),
                               'categories': list(rdef.categories)},
                     'versions': [{'name': rdef.version, 'served': True, 'storage': True,
                                   'subresources': {'status': {}} if rdef.status_subresource else {}}]},
        }

    def install_crd(self, rdef: ResourceDef, actor: str = 'admin') -> None:
        """Create the CRD object and start serving the kind."""
        self.add_def(rdef)
        self.create(CRDS, None, self.crd_body(rdef), actor=actor)

    def uninstall_crd(self, rdef: ResourceDef, actor: str = 'admin') -> None:
        self.delete(CRDS, None, f'{rdef.plural}.{rdef.group}', actor=actor)
        for okey in [k for k in self.objects if k[:3] == rdef.key]:
            obj = self.objects.pop(okey)
            self._emit(rdef, 'DELETED', obj)
        self.remove_def(rdef.key)

    # --- low-level store ---
    def _next_rv(self) -> int:
        self.rv += 1
        return self.rv

    def _okey(self, rdef: ResourceDef, ns: Optional[str], name: str) -> tuple[str, str, str, Optional[str], str]:
        return rdef.key + ((ns if rdef.namespaced else None), name)

    def get(self, rdef: ResourceDef, ns: Optional[str], name: str) -> Optional[Obj]:
        return self.objects.get(self._okey(rdef, ns, name))

    def list(self, rdef: ResourceDef, ns: Optional[str]) -> list[Obj]:
        return [obj for key, obj in self.objects.items()
                if key[:3] == rdef.key and (ns is None or not rdef.namespaced or key[3] == ns)]

    def _normalise(self, obj: Obj) -> Obj:
        meta = obj.get('metadata')
        if isinstance(meta, dict):
            for field in ('labels', 'annotations', 'finalizers', 'ownerReferences'):
                if field in meta and not meta[field]:
                    del meta[field]
        return obj

    def _emit(self, rdef: ResourceDef, etype: str, obj: Obj) -> None:
        rv = int(obj['metadata']['resourceVersion'])
        hist = self.history.setdefault(rdef.key, [])
        hist.append((rv, etype, obj))
        if len(hist) > self.history_limit:
            drop = len(hist) - self.history_limit
            self.history_floor[rdef.key] = hist[drop - 1][0]
            del hist[:drop]
        for w in self.watches:
            if w.open and w.rdef.key == rdef.key:
                if w.namespace is None or not rdef.namespaced or obj['metadata'].get('namespace') == w.namespace:
                    self._send(w, {'type': etype, 'object': obj}, rv)

    def _send(self, w: Watch, event: Obj, rv: int) -> None:
        w.sent += 1
        w.last_sent_rv = max(w.last_sent_rv, rv)
        if w.sink is not None:
            w.sink(event)

    def compact(self, rdef: ResourceDef) -> None:
        """Forget the whole event history of a kind (so that older versions yield 410 Gone)."""
        self.history[rdef.key] = []
        self.rv += 1  # the store's revision moves on with writes to other kinds; older versions are compacted away
        self.history_floor[rdef.key] = self.rv
        self.sim.count('fault.compaction')

    def _notify(self, **kw: Any) -> None:
        tr = Transition(seq=self.sim.seq, t=self.sim.now, ctx=getattr(self, 'current_ctx', None), **kw)
        for listener in self.listeners:
            listener(tr)

    # --- verbs (direct API; the HTTP layer and the workload both end up here) ---
    def create(self, rdef: ResourceDef, ns: Optional[str], body: Obj, *, actor: str) -> tuple[int, Obj]:
        body = copy.deepcopy(body)
        meta = body.setdefault('metadata', {})
        name = meta.get('name')
        if not name:
            return 422, status_payload(422, 'Invalid', 'metadata.name: Required value')
        if rdef.namespaced:
            ns = ns or meta.get('namespace') or 'default'
            meta['namespace'] = ns
            if self.get(NAMESPACES, None, ns) is None:
                return 404, status_payload(404, 'NotFound', f'namespaces "{ns}" not found')
        else:
            ns = None
            meta.pop('namespace', None)
        okey = self._okey(rdef, ns, name)
        if okey in self.objects:
            return 409, status_payload(409, 'AlreadyExists', f'{rdef.plural} "{name}" already exists')
        err = validate_annotations(meta.get('annotations'))
        if err:
            return 422, status_payload(422, 'Invalid', err)
        self.uid_counter += 1
        meta['uid'] = f'uid-{self.uid_counter:04d}'
        meta['creationTimestamp'] = core.iso(core.wall_now())
        meta['generation'] = 1
        meta['resourceVersion'] = str(self._next_rv())
        meta.pop('deletionTimestamp', None)
        body.setdefault('apiVersion', rdef.api_version)
        body.setdefault('kind', rdef.kind)
        if rdef.status_subresource:
            body.pop('status', None)
        self._normalise(body)
        self.objects[okey] = body
        self.sim.log('srv', 'create', actor, rdef.plural, ns, name, meta['uid'], meta['resourceVersion'])
        self._notify(actor=actor, verb='create', rkey=rdef.key, ns=ns, name=name, uid=meta['uid'],
                     before=None, after=body, request=None)
        self._emit(rdef, 'ADDED', body)
        return 201, body

    def _update(self, rdef: ResourceDef, old: Obj, new: Obj, *, actor: str, verb: str,
                subresource: Optional[str], request: Any, content_type: Optional[str]) -> tuple[int, Obj]:
        """Common tail of all updates: protect system fields, validate, store, emit."""
        ometa = old['metadata']
        if not isinstance(new, dict) or not isinstance(new.get('metadata'), dict):
            return 422, status_payload(422, 'Invalid', 'the object must have metadata')
        nmeta = new['metadata']
        for field in ('uid', 'creationTimestamp', 'name', 'namespace', 'resourceVersion',
                      'deletionTimestamp', 'generation'):
            if field in ometa:
                nmeta[field] = ometa[field]
            else:
                nmeta.pop(field, None)
        new['apiVersion'] = old.get('apiVersion')
        new['kind'] = old.get('kind')
        if rdef.status_subresource:
            if subresource == 'status':
                # Only the status is taken from the request; everything else stays.
                status = new.get('status')
                new = copy.deepcopy(old)
                if status is None:
                    new.pop('status', None)
                else:
                    new['status'] = status
                nmeta = new['metadata']
            else:
                if 'status' in old:
                    new['status'] = old['status']
                else:
                    new.pop('status', None)
        self._normalise(new)
        err = validate_annotations(nmeta.get('annotations'))
        if err:
            return 422, status_payload(422, 'Invalid', err)
        fins = nmeta.get('finalizers')
        if fins is not None and (not isinstance(fins, list) or not all(isinstance(f, str) for f in fins)):
            return 422, status_payload(422, 'Invalid', 'metadata.finalizers must be a list of strings')
        if 'deletionTimestamp' in ometa and set(fins or []) - set(ometa.get('finalizers') or []):
            return 422, status_payload(422, 'Forbidden', 'no new finalizers can be added if the object is being deleted')

        ns, name, uid = ometa.get('namespace'), ometa['name'], ometa['uid']
        okey = self._okey(rdef, ns, name)
        if new == old:
            self.sim.log('srv', verb + '-noop', actor, rdef.plural, ns, name, uid, ometa['resourceVersion'])
            self._notify(actor=actor, verb=verb + '-noop', rkey=rdef.key, ns=ns, name=name, uid=uid,
                         before=old, after=old, request=request, subresource=subresource,
                         content_type=content_type)
            return 200, old

        if new.get('spec') != old.get('spec'):
            nmeta['generation'] = int(ometa.get('generation', 1)) + 1

        # The removal of the last finalizer of an object under deletion IS the deletion.
        if 'deletionTimestamp' in ometa and not nmeta.get('finalizers'):
            if self.final_patch_bumps_rv:
                nmeta['resourceVersion'] = str(self._next_rv())
            del self.objects[okey]
            self.sim.log('srv', verb + '+deleted', actor, rdef.plural, ns, name, uid, nmeta['resourceVersion'])
            self._notify(actor=actor, verb=verb, rkey=rdef.key, ns=ns, name=name, uid=uid,
                         before=old, after=None, request=request, subresource=subresource,
                         content_type=content_type)
            gone = copy.deepcopy(old if self.deleted_event_keeps_finalizer else new)
            gone['metadata']['resourceVersion'] = str(self._next_rv())
            self._emit(rdef, 'DELETED', gone)
            self._cascade(rdef, old)
            return 200, new

        nmeta['resourceVersion'] = str(self._next_rv())
        self.objects[okey] = new
        self.sim.log('srv', verb, actor, rdef.plural, ns, name, uid, nmeta['resourceVersion'])
        self._notify(actor=actor, verb=verb, rkey=rdef.key, ns=ns, name=name, uid=uid,
                     before=old, after=new, request=request, subresource=subresource,
                     content_type=content_type)
        self._emit(rdef, 'MODIFIED', new)
        return 200, new

    def patch(self, rdef: ResourceDef, ns: Optional[str], name: str, payload: Any, *,
              content_type: str, subresource: Optional[str] = None, actor: str) -> tuple[int, Obj]:
        old = self.get(rdef, ns, name)
        if old is None:
            return 404, status_payload(404, 'NotFound', f'{rdef.plural} "{name}" not found')
        if subresource is not None and not (subresource == 'status' and rdef.status_subresource):
            return 404, status_payload(404, 'NotFound', f'the server could not find the requested resource')
        if content_type.startswith('application/merge-patch+json'):
            if not isinstance(payload, dict):
                return 400, status_payload(400, 'BadRequest', 'merge patch must be an object')
            new = merge_patch(copy.deepcopy(old), payload)  # never share sub-dicts with stored snapshots
        elif content_type.startswith('application/json-patch+json'):
            if not isinstance(payload, list):
                return 400, status_payload(400, 'BadRequest', 'json patch must be a list')
            try:
                new = json_patch(old, payload)
            except JsonPatchTestFailed as e:
                self.sim.log('srv', 'patch-422', actor, rdef.plural, ns, name, old['metadata']['uid'], str(e))
                self._notify(actor=actor, verb='patch-rejected', rkey=rdef.key, ns=ns, name=name,
                             uid=old['metadata']['uid'], before=old, after=old, request=payload,
                             subresource=subresource, content_type=content_type)
                return 422, status_payload(422, 'Invalid', f'the server rejected our request due to an error in our request: {e}')
            except JsonPatchError as e:
                return 422, status_payload(422, 'Invalid', f'jsonpatch: {e}')
        else:
            return 415, status_payload(415, 'UnsupportedMediaType', f'unsupported patch type {content_type}')
        return self._update(rdef, old, new, actor=actor, verb='patch', subresource=subresource,
                            request=payload, content_type=content_type)

    def replace_fields(self, rdef: ResourceDef, ns: Optional[str], name: str,
                       fn: Callable[[Obj], None], *, actor: str,
                       subresource: Optional[str] = None) -> tuple[int, Obj]:
        """A foreign read-modify-write (kubectl edit / another controller's update)."""
        old = self.get(rdef, ns, name)
        if old is None:
            return 404, status_payload(404, 'NotFound', f'{rdef.plural} "{name}" not found')
        new = copy.deepcopy(old)
        fn(new)
        return self._update(rdef, old, new, actor=actor, verb='update', subresource=subresource,
                            request=None, content_type=None)

    def delete(self, rdef: ResourceDef, ns: Optional[str], name: str, *, actor: str) -> tuple[int, Obj]:
        old = self.get(rdef, ns, name)
        if old is None:
            return 404, status_payload(404, 'NotFound', f'{rdef.plural} "{name}" not found')
        ometa = old['metadata']
        uid = ometa['uid']
        okey = self._okey(rdef, ometa.get('namespace'), name)
        if ometa.get('finalizers'):
            if 'deletionTimestamp' in ometa:
                return 200, old
            new = copy.deepcopy(old)
            new['metadata']['deletionTimestamp'] = core.iso(core.wall_now())
            new['metadata']['resourceVersion'] = str(self._next_rv())
            self.objects[okey] = new
            self.sim.log('srv', 'delete-mark', actor, rdef.plural, ometa.get('namespace'), name, uid,
                         new['metadata']['resourceVersion'])
            self._notify(actor=actor, verb='delete-mark', rkey=rdef.key, ns=ometa.get('namespace'),
                         name=name, uid=uid, before=old, after=new, request=None)
            self._emit(rdef, 'MODIFIED', new)
            return 200, new
        del self.objects[okey]
        gone = copy.deepcopy(old)
        gone['metadata']['resourceVersion'] = str(self._next_rv())
        self.sim.log('srv', 'delete', actor, rdef.plural, ometa.get('namespace'), name, uid,
                     gone['metadata']['resourceVersion'])
        self._notify(actor=actor, verb='delete', rkey=rdef.key, ns=ometa.get('namespace'), name=name,
                     uid=uid, before=old, after=None, request=None)
        self._emit(rdef, 'DELETED', gone)
        self._cascade(rdef, old)
        return 200, gone

    def _cascade(self, rdef: ResourceDef, old: Obj) -> None:
        if rdef.key == CRDS.key:
            spec = old.get('spec', {})
            for ver in spec.get('versions', []):
                key = (spec.get('group'), ver.get('name'), spec.get('names', {}).get('plural'))
                if key in self.defs:
                    served = self.defs[key]
                    for okey in [k for k in self.objects if k[:3] == key]:
                        obj = self.objects.pop(okey)
                        gone = copy.deepcopy(obj)
                        gone['metadata']['resourceVersion'] = str(self._next_rv())
                        self._emit(served, 'DELETED', gone)
                    self.remove_def(key)
        if rdef.key == NAMESPACES.key:
            ns = old['metadata']['name']
            for okey in [k for k in self.objects if k[3] == ns]:
                obj = self.objects.pop(okey)
                served2 = self.defs.get(okey[:3])
                if served2 is not None:
                    gone = copy.deepcopy(obj)
                    gone['metadata']['resourceVersion'] = str(self._next_rv())
                    self._emit(served2, 'DELETED', gone)
            for w in list(self.watches):
                if w.namespace == ns:
                    self.close_watch(w)

    # --- watches ---
    def open_watch(self, rdef: ResourceDef, ns: Optional[str], since: Optional[str], *,
                   actor: str, bookmarks: bool) -> tuple[Watch, list[Obj]]:
        """Returns the watch and the events to be replayed first (incl. a 410 ERROR if too old)."""
        self.watch_counter += 1
        w = Watch(self.watch_counter, rdef, ns, actor, bookmarks)
        backlog: list[Obj] = []
        if since is not None and since != '' and since != '0':
            try:
                since_rv = int(since)
            except ValueError:
                since_rv = -1
            if since_rv < self.history_floor.get(rdef.key, 0) or since_rv > self.rv:
                backlog.append({'type': 'ERROR', 'object': status_payload(
                    410, 'Expired', f'too old resource version: {since} ({self.rv})')})
                w.open = False
                return w, backlog
            for rv, etype, obj in self.history.get(rdef.key, []):
                if rv > since_rv:
                    if ns is None or not rdef.namespaced or obj['metadata'].get('namespace') == ns:
                        backlog.append({'type': etype, 'object': obj})
                        w.last_sent_rv = max(w.last_sent_rv, rv)
            w.last_sent_rv = max(w.last_sent_rv, since_rv)
        else:
            for obj in self.list(rdef, ns):
                backlog.append({'type': 'ADDED', 'object': obj})
            w.last_sent_rv = self.rv
        self.watches.append(w)
        return w, backlog

    def close_watch(self, w: Watch) -> None:
        if w.open:
            w.open = False
            if w in self.watches:
                self.watches.remove(w)
            if w.sink is not None:
                w.sink(None)  # EOF

    def bookmark(self, w: Watch) -> None:
        if w.open and w.bookmarks:
            rv = self.rv
            self._send(w, {'type': 'BOOKMARK', 'object': {
                'kind': w.rdef.kind, 'apiVersion': w.rdef.api_version,
                'metadata': {'resourceVersion': str(rv)}}}, rv)

    # --- discovery ---
    def discovery_api(self) -> Obj:
        return {'kind': 'APIVersions', 'versions': ['v1']}

    def discovery_apis(self) -> Obj:
        groups: dict[str, list[str]] = {}
        for (g, v, p) in self.defs:
            if g:
                groups.setdefault(g, [])
                if v not in groups[g]:
                    groups[g].append(v)
        return {'kind': 'APIGroupList', 'apiVersion': 'v1', 'groups': [
            {'name': g, 'versions': [{'groupVersion': f'{g}/{v}', 'version': v} for v in vs],
             'preferredVersion': {'groupVersion': f'{g}/{vs[0]}', 'version': vs[0]}}
            for g, vs in groups.items()]}

    def discovery_version(self, group: str, version: str) -> Optional[Obj]:
        resources = []
        for rdef in self.defs.values():
            if rdef.group == group and rdef.version == version:
                resources.append({'name': rdef.plural, 'singularName': rdef.singular,
                                  'namespaced': rdef.namespaced, 'kind': rdef.kind,
                                  'verbs': list(rdef.verbs), 'shortNames': list(rdef.shortnames),
                                  'categories': list(rdef.categories)})
                if rdef.status_subresource:
                    resources.append({'name': f'{rdef.plural}/status', 'singularName': '',
                                      'namespaced': rdef.namespaced, 'kind': rdef.kind,
                                      'verbs': ['get', 'patch', 'update']})
        if not resources:
            return None
        gv = f'{group}/{version}' if group else version
        return {'kind': 'APIResourceList', 'apiVersion': 'v1', 'groupVersion': gv, 'resources': resources}

    # --- HTTP routing ---
    def route(self, path: str) -> Optional[tuple[ResourceDef, Optional[str], Optional[str], Optional[str]]]:
        """path -> (rdef, namespace, name, subresource), or None if not a resource URL."""
        parts = [p for p in path.split('/') if p]
        if len(parts) >= 2 and parts[0] == 'api':
            group, version, rest = '', parts[1], parts[2:]
        elif len(parts) >= 3 and parts[0] == 'apis':
            group, version, rest = parts[1], parts[2], parts[3:]
        else:
            return None
        if not rest:
            return None
        ns: Optional[str] = None
        # /namespaces/{ns}/{plural}[/{name}[/{sub}]] vs /namespaces[/{name}[/{sub}]]
        if rest[0] == 'namespaces' and len(rest) >= 3 and (group, version, rest[2]) in self.defs \
                and not (group == '' and rest[2] == 'status'):
            ns, rest = rest[1], rest[2:]
        plural = rest[0]
        rdef = self.defs.get((group, version, plural))
        if rdef is None:
            return None
        name = rest[1] if len(rest) >= 2 else None
        sub = rest[2] if len(rest) >= 3 else None
        return rdef, ns, name, sub

    def handle(self, method: str, url: str, payload: Any, headers: dict[str, str], *,
               actor: str) -> tuple[int, Any]:
        """
        Apply one non-watch HTTP request. Returns (status, json payload).
        Watch requests are handled by the transport via `open_watch`.
        """
        parsed = urllib.parse.urlparse(url)
        path = parsed.path
        method = method.upper()
        if method == 'GET':
            if path.rstrip('/') == '/api':
                return 200, self.discovery_api()
            if path.rstrip('/') == '/apis':
                return 200, self.discovery_apis()
            if path.rstrip('/') == '/version':
                return 200, {'major': '1', 'minor': '30', 'gitVersion': 'v1.30.0-sim'}
            parts = [p for p in path.split('/') if p]
            if len(parts) == 2 and parts[0] == 'api':
                disc = self.discovery_version('', parts[1])
                return (200, disc) if disc else (404, status_payload(404, 'NotFound', 'not found'))
            if len(parts) == 3 and parts[0] == 'apis':
                disc = self.discovery_version(parts[1], parts[2])
                return (200, disc) if disc else (404, status_payload(404, 'NotFound', 'not found'))
        routed = self.route(path)
        if routed is None:
            return 404, status_payload(404, 'NotFound', 'the server could not find the requested resource')
        rdef, ns, name, sub = routed
        if method == 'GET' and name is None:
            items = [{k: v for k, v in obj.items() if k not in ('kind', 'apiVersion')}
                     for obj in self.list(rdef, ns)]
            return 200, {'kind': f'{rdef.kind}List', 'apiVersion': rdef.api_version,
                         'metadata': {'resourceVersion': str(self.rv)}, 'items': items}
        if method == 'GET':
            obj = self.get(rdef, ns, name or '')
            if obj is None:
                return 404, status_payload(404, 'NotFound', f'{rdef.plural} "{name}" not found')
            return 200, obj
        if method == 'POST' and name is None:
            return self.create(rdef, ns, payload or {}, actor=actor)
        if method == 'PATCH' and name is not None:
            ctype = headers.get('Content-Type', headers.get('content-type', ''))
            return self.patch(rdef, ns, name, payload, content_type=ctype, subresource=sub, actor=actor)
        if method == 'DELETE' and name is not None:
            return self.delete(rdef, ns, name, actor=actor)
        return 405, status_payload(405, 'MethodNotAllowed', f'{method} is not allowed here')

    # --- helpers for workloads ---
    def ensure_namespace(self, name: str) -> None:
        if self.get(NAMESPACES, None, name) is None:
            self.create(NAMESPACES, None, {'metadata': {'name': name}}, actor='admin')

    def dump(self) -> str:
        return json.dumps({'/'.join(str(p) for p in k): v for k, v in self.objects.items()},
                          sort_keys=True, indent=1)
